package main

// Contract language: lexer + Pratt parser for the expressions in //@ blocks,
// and the block structure (func / behavior / loop / pure / pred / lemma).

import (
	"fmt"
	"math/big"
	"strings"
	"unicode"
)

type CExpr struct {
	Kind string // ident int str bin un call index slice field quant old paren cond
	Op   string
	Name string
	Num  *big.Int
	Str  string
	Args []*CExpr
	Vars []CVar // quant
	Src  string
}

type CVar struct {
	Name string
	Type string
}

func (e *CExpr) String() string {
	if e == nil {
		return "<nil>"
	}
	switch e.Kind {
	case "ident":
		return e.Name
	case "int":
		return e.Num.String()
	case "str":
		return fmt.Sprintf("%q", e.Str)
	case "bin":
		return "(" + e.Args[0].String() + " " + e.Op + " " + e.Args[1].String() + ")"
	case "un":
		return e.Op + e.Args[0].String()
	case "call":
		var as []string
		for _, a := range e.Args[1:] {
			as = append(as, a.String())
		}
		return e.Args[0].String() + "(" + strings.Join(as, ", ") + ")"
	case "index":
		return e.Args[0].String() + "[" + e.Args[1].String() + "]"
	case "slice":
		lo, hi := "", ""
		if e.Args[1] != nil {
			lo = e.Args[1].String()
		}
		if e.Args[2] != nil {
			hi = e.Args[2].String()
		}
		return e.Args[0].String() + "[" + lo + ":" + hi + "]"
	case "field":
		return e.Args[0].String() + "." + e.Name
	case "quant":
		var vs []string
		for _, v := range e.Vars {
			vs = append(vs, v.Name+" "+v.Type)
		}
		return "(" + e.Op + " " + strings.Join(vs, ", ") + " :: " + e.Args[0].String() + ")"
	case "cond":
		return "(" + e.Args[0].String() + " ? " + e.Args[1].String() + " : " + e.Args[2].String() + ")"
	}
	return "?" + e.Kind
}

type tok struct {
	k string // id int str op eof
	s string
}

func lexC(src string) ([]tok, error) {
	var out []tok
	i := 0
	rs := []rune(src)
	ops := []string{"<==>", "==>", "::", "&&", "||", "==", "!=", "<=", ">=", "<<", ">>", "&^"}
	for i < len(rs) {
		c := rs[i]
		switch {
		case unicode.IsSpace(c):
			i++
		case unicode.IsLetter(c) || c == '_':
			j := i
			for j < len(rs) && (unicode.IsLetter(rs[j]) || unicode.IsDigit(rs[j]) || rs[j] == '_') {
				j++
			}
			out = append(out, tok{"id", string(rs[i:j])})
			i = j
		case unicode.IsDigit(c):
			j := i
			for j < len(rs) && (unicode.IsDigit(rs[j]) || unicode.IsLetter(rs[j]) || rs[j] == '_') {
				j++
			}
			out = append(out, tok{"int", string(rs[i:j])})
			i = j
		case c == '"':
			j := i + 1
			var sb strings.Builder
			for j < len(rs) && rs[j] != '"' {
				if rs[j] == '\\' && j+1 < len(rs) {
					j++
					switch rs[j] {
					case 'n':
						sb.WriteByte('\n')
					case 't':
						sb.WriteByte('\t')
					case '0':
						sb.WriteByte(0)
					case 'x':
						if j+2 < len(rs) {
							var b byte
							fmt.Sscanf(string(rs[j+1:j+3]), "%02x", &b)
							sb.WriteByte(b)
							j += 2
						}
					default:
						sb.WriteRune(rs[j])
					}
				} else {
					sb.WriteRune(rs[j])
				}
				j++
			}
			if j >= len(rs) {
				return nil, fmt.Errorf("unterminated string")
			}
			out = append(out, tok{"str", sb.String()})
			i = j + 1
		case c == '/' && i+1 < len(rs) && rs[i+1] == '/':
			i = len(rs) // trailing comment
		default:
			matched := false
			for _, o := range ops {
				if strings.HasPrefix(string(rs[i:min(i+len(o), len(rs))]), o) {
					out = append(out, tok{"op", o})
					i += len(o)
					matched = true
					break
				}
			}
			if !matched {
				out = append(out, tok{"op", string(c)})
				i++
			}
		}
	}
	out = append(out, tok{"eof", ""})
	return out, nil
}

type cparser struct {
	toks []tok
	p    int
}

func (p *cparser) peek() tok { return p.toks[p.p] }
func (p *cparser) next() tok { t := p.toks[p.p]; p.p++; return t }
func (p *cparser) accept(s string) bool {
	if p.peek().k == "op" && p.peek().s == s {
		p.p++
		return true
	}
	return false
}
func (p *cparser) expect(s string) {
	if !p.accept(s) {
		panic(fmt.Errorf("expected %q, found %q", s, p.peek().s))
	}
}

var binPrec = map[string]int{
	"<==>": 1, "==>": 2, "||": 3, "&&": 4,
	"==": 5, "!=": 5, "<": 5, "<=": 5, ">": 5, ">=": 5,
	"+": 6, "-": 6, "|": 6, "^": 6,
	"*": 7, "/": 7, "%": 7, "<<": 7, ">>": 7, "&": 7, "&^": 7,
}

func ParseCExpr(src string) (e *CExpr, err error) {
	toks, err := lexC(src)
	if err != nil {
		return nil, err
	}
	p := &cparser{toks: toks}
	defer func() {
		if r := recover(); r != nil {
			if er, ok := r.(error); ok {
				err = fmt.Errorf("%v in %q", er, src)
				return
			}
			panic(r)
		}
	}()
	e = p.expr(0)
	if p.peek().k != "eof" {
		return nil, fmt.Errorf("trailing %q in %q", p.peek().s, src)
	}
	e.Src = src
	return e, nil
}

func (p *cparser) expr(minPrec int) *CExpr {
	lhs := p.unary()
	for {
		t := p.peek()
		if t.k != "op" {
			break
		}
		if t.s == "?" && minPrec == 0 {
			p.next()
			a := p.expr(1)
			p.expect(":")
			b := p.expr(0)
			lhs = &CExpr{Kind: "cond", Args: []*CExpr{lhs, a, b}}
			continue
		}
		pr, ok := binPrec[t.s]
		if !ok || pr < minPrec || (pr == 0) {
			break
		}
		if minPrec == 0 && pr < 1 {
			break
		}
		p.next()
		var rhs *CExpr
		if t.s == "==>" {
			rhs = p.expr(pr) // right assoc
		} else {
			rhs = p.expr(pr + 1)
		}
		lhs = &CExpr{Kind: "bin", Op: t.s, Args: []*CExpr{lhs, rhs}}
	}
	return lhs
}

func (p *cparser) unary() *CExpr {
	t := p.peek()
	if t.k == "op" && (t.s == "!" || t.s == "-" || t.s == "^") {
		p.next()
		return &CExpr{Kind: "un", Op: t.s, Args: []*CExpr{p.unary()}}
	}
	return p.postfix(p.primary())
}

func (p *cparser) primary() *CExpr {
	t := p.next()
	switch t.k {
	case "int":
		n := new(big.Int)
		s := strings.ReplaceAll(t.s, "_", "")
		if _, ok := n.SetString(s, 0); !ok {
			panic(fmt.Errorf("bad int %q", t.s))
		}
		return &CExpr{Kind: "int", Num: n}
	case "str":
		return &CExpr{Kind: "str", Str: t.s}
	case "id":
		if t.s == "forall" || t.s == "exists" {
			var vs []CVar
			for {
				n := p.next()
				if n.k != "id" {
					panic(fmt.Errorf("quantifier: expected variable name"))
				}
				ty := "int"
				if p.peek().k == "id" {
					ty = p.next().s
				}
				vs = append(vs, CVar{n.s, ty})
				if !p.accept(",") {
					break
				}
			}
			p.expect("::")
			body := p.expr(0)
			return &CExpr{Kind: "quant", Op: t.s, Vars: vs, Args: []*CExpr{body}}
		}
		return &CExpr{Kind: "ident", Name: t.s}
	case "op":
		if t.s == "(" {
			e := p.expr(0)
			p.expect(")")
			return e
		}
	}
	panic(fmt.Errorf("unexpected %q", t.s))
}

func (p *cparser) postfix(e *CExpr) *CExpr {
	for {
		switch {
		case p.accept("("):
			args := []*CExpr{e}
			if !p.accept(")") {
				for {
					args = append(args, p.expr(0))
					if p.accept(")") {
						break
					}
					p.expect(",")
				}
			}
			e = &CExpr{Kind: "call", Args: args}
		case p.accept("["):
			var lo, hi *CExpr
			if p.accept(":") {
				if !p.accept("]") {
					hi = p.expr(0)
					p.expect("]")
				}
				e = &CExpr{Kind: "slice", Args: []*CExpr{e, nil, hi}}
				continue
			}
			lo = p.expr(0)
			if p.accept(":") {
				if !p.accept("]") {
					hi = p.expr(0)
					p.expect("]")
				}
				e = &CExpr{Kind: "slice", Args: []*CExpr{e, lo, hi}}
			} else {
				p.expect("]")
				e = &CExpr{Kind: "index", Args: []*CExpr{e, lo}}
			}
		case p.accept("."):
			n := p.next()
			if n.k != "id" {
				panic(fmt.Errorf("expected field name"))
			}
			e = &CExpr{Kind: "field", Name: n.s, Args: []*CExpr{e}}
		default:
			return e
		}
	}
}

// ---------------- block structure

type Clause struct {
	Kind     string // requires ensures invariant decreases modifies
	E        *CExpr
	Props    []string // property tags
	Label    string
	Text     string
	Only     string // restrict to one behaviour ("@name" prefix)
	Abstract bool
}

type LoopSpec struct {
	Ordinal    int
	Invariants []*Clause
	Decreases  *CExpr
}

type Behavior struct {
	Name     string
	Requires []*Clause
	Ensures  []*Clause
	Props    []string
	Ghost    []CVar // ghost parameters (universally quantified inputs of this behavior)
}

type FuncSpec struct {
	Pkg       string // package path
	Recv      string // receiver type name ("" for functions); "*T" or "T"
	Name      string
	Key       string // "pkg.(*T).Name" / "pkg.Name"
	Behaviors []*Behavior
	Loops     map[int]*LoopSpec
	Mode      string // int | bv
	Theory    string // T0 | T1
	Layout    string // "enc T" / "dec T" synthesised contract
	Options   map[string]string
	Props     []string
	Trusted   bool // contract assumed, body not verified (must be listed as assumption)
	Inline    bool
	File      string
	Line      int
}

type PureDef struct {
	Ensures *CExpr // rec only: a property of every application, proved by induction on the definition (see VerifyRecDefs)
	Rec     bool   // recursive spec function: applications stay symbolic, each is unfolded once (fuel 1) by the generator
	Pkg     string
	Name    string
	Params  []CVar
	Ret     string
	Body    *CExpr
}

type LemmaSpec struct {
	Pkg      string
	Name     string
	Params   []CVar
	Requires []*Clause
	Ensures  []*Clause
	Props    []string
	Theory   string
	// proof by well-founded induction: each Induct entry is an argument tuple at which the lemma itself may be assumed,
	// provided Decreases (a natural-number measure over the parameters) is smaller there
	Induct    [][]*CExpr
	Decreases *CExpr
	Uses      []*CExpr // applications of other (separately proved) lemmas: name(args)
}

type UninterpDef struct {
	Pkg, Name, Ret string
	Args           []string
}

type SpecFile struct {
	Funcs    []*FuncSpec
	Pures    []*PureDef
	Lemmas   []*LemmaSpec
	Uninterp []*UninterpDef
}

func parseParams(s string) []CVar {
	var out []CVar
	s = strings.TrimSpace(s)
	if s == "" {
		return nil
	}
	for _, part := range strings.Split(s, ",") {
		f := strings.Fields(strings.TrimSpace(part))
		if len(f) == 1 {
			out = append(out, CVar{f[0], ""})
		} else if len(f) >= 2 {
			out = append(out, CVar{f[0], strings.Join(f[1:], " ")})
		}
	}
	// "a, b Bytes" style: propagate types backwards
	for i := len(out) - 2; i >= 0; i-- {
		if out[i].Type == "" {
			out[i].Type = out[i+1].Type
		}
	}
	return out
}

// ParseSpecLines parses the //@ lines (already stripped of the marker) of one file.
func ParseSpecLines(pkg, file string, lines []string, lineNos []int) (*SpecFile, error) {
	sf := &SpecFile{}
	var curF *FuncSpec
	var curB *Behavior
	var curL *LoopSpec
	var curLem *LemmaSpec
	// join continuation lines: a line ending with a binary operator or starting deeper than the clause keyword is not handled; use explicit trailing backslash
	var joined []string
	var jn []int
	for i := 0; i < len(lines); i++ {
		l := lines[i]
		n := lineNos[i]
		for strings.HasSuffix(strings.TrimRight(l, " \t"), "\\") && i+1 < len(lines) {
			l = strings.TrimSuffix(strings.TrimRight(l, " \t"), "\\") + " " + strings.TrimSpace(lines[i+1])
			i++
		}
		joined = append(joined, l)
		jn = append(jn, n)
	}
	errf := func(n int, f string, a ...any) error {
		return fmt.Errorf("%s:%d: %s", file, n, fmt.Sprintf(f, a...))
	}
	for i, raw := range joined {
		n := jn[i]
		l := strings.TrimSpace(raw)
		if l == "" || strings.HasPrefix(l, "#") {
			continue
		}
		kw, rest := l, ""
		if j := strings.IndexAny(l, " \t"); j >= 0 {
			kw, rest = l[:j], strings.TrimSpace(l[j+1:])
		}
		// optional tag prefix on clauses:  [C01,C02 label] expr
		parseClause := func(kind string) (*Clause, error) {
			c := &Clause{Kind: kind, Text: rest}
			r := rest
			if strings.HasPrefix(r, "@") {
				j := strings.IndexAny(r, " \t")
				if j < 0 {
					return nil, errf(n, "bad @behaviour prefix")
				}
				c.Only = r[1:j]
				r = strings.TrimSpace(r[j+1:])
			}
			if strings.HasPrefix(r, "[") {
				j := strings.Index(r, "]")
				if j < 0 {
					return nil, errf(n, "unterminated tag")
				}
				tag := strings.Fields(r[1:j])
				r = strings.TrimSpace(r[j+1:])
				if len(tag) > 0 {
					for _, p := range strings.Split(tag[0], ",") {
						if p != "" && p != "-" {
							c.Props = append(c.Props, p)
						}
					}
				}
				if len(tag) > 1 {
					c.Label = tag[1]
				}
			}
			e, err := ParseCExpr(r)
			if err != nil {
				return nil, errf(n, "%v", err)
			}
			c.E = e
			c.Text = r
			return c, nil
		}
		switch kw {
		case "func":
			curLem = nil
			curL = nil
			fs := &FuncSpec{Pkg: pkg, Loops: map[int]*LoopSpec{}, Options: map[string]string{}, File: file, Line: n}
			r := rest
			if strings.HasPrefix(r, "(") {
				j := strings.Index(r, ")")
				if j < 0 {
					return nil, errf(n, "bad receiver")
				}
				rf := strings.Fields(r[1:j])
				fs.Recv = rf[len(rf)-1]
				r = strings.TrimSpace(r[j+1:])
			}
			j := strings.IndexAny(r, "( \t")
			if j < 0 {
				j = len(r)
			}
			fs.Name = r[:j]
			if fs.Recv != "" {
				fs.Key = pkg + ".(" + fs.Recv + ")." + fs.Name
			} else {
				fs.Key = pkg + "." + fs.Name
			}
			curF = fs
			curB = &Behavior{Name: "default"}
			fs.Behaviors = append(fs.Behaviors, curB)
			sf.Funcs = append(sf.Funcs, fs)
		case "behavior":
			if curF == nil {
				return nil, errf(n, "behavior outside func")
			}
			curL = nil
			f := strings.Fields(rest)
			curB = &Behavior{Name: f[0]}
			for _, x := range f[1:] {
				if strings.HasPrefix(x, "props=") {
					curB.Props = strings.Split(strings.TrimPrefix(x, "props="), ",")
				}
			}
			curF.Behaviors = append(curF.Behaviors, curB)
		case "ghost":
			if curB == nil {
				return nil, errf(n, "ghost outside func")
			}
			curB.Ghost = append(curB.Ghost, parseParams(rest)...)
		case "requires", "ensures", "abstract":
			c, err := parseClause(kw)
			if err != nil {
				return nil, err
			}
			if curLem != nil {
				if kw == "requires" {
					curLem.Requires = append(curLem.Requires, c)
				} else {
					curLem.Ensures = append(curLem.Ensures, c)
				}
				continue
			}
			if curB == nil {
				return nil, errf(n, "%s outside func", kw)
			}
			if kw == "requires" {
				curB.Requires = append(curB.Requires, c)
			} else {
				// "abstract": names the function's value by an uninterpreted spec function (the code is a function of its
				// inputs, A-DET); assumed at call sites, not an obligation of the body
				c.Abstract = kw == "abstract"
				curB.Ensures = append(curB.Ensures, c)
			}
		case "loop":
			if curF == nil {
				return nil, errf(n, "loop outside func")
			}
			var k int
			fmt.Sscanf(rest, "%d", &k)
			curL = &LoopSpec{Ordinal: k}
			curF.Loops[k] = curL
		case "invariant":
			if curL == nil {
				return nil, errf(n, "invariant outside loop")
			}
			c, err := parseClause(kw)
			if err != nil {
				return nil, err
			}
			curL.Invariants = append(curL.Invariants, c)
		case "use":
			if curLem == nil {
				return nil, errf(n, "use outside lemma")
			}
			app, err := ParseCExpr(rest)
			if err != nil || app.Kind != "call" {
				return nil, errf(n, "use expects lemma(args)")
			}
			curLem.Uses = append(curLem.Uses, app)
		case "induct":
			if curLem == nil {
				return nil, errf(n, "induct outside lemma")
			}
			tuple, err := ParseCExpr("tuple(" + rest + ")")
			if err != nil {
				return nil, errf(n, "%v", err)
			}
			curLem.Induct = append(curLem.Induct, tuple.Args[1:])
		case "decreases":
			if curLem != nil && curL == nil {
				e, err := ParseCExpr(rest)
				if err != nil {
					return nil, errf(n, "%v", err)
				}
				curLem.Decreases = e
				break
			}
			if curL == nil {
				return nil, errf(n, "decreases outside loop")
			}
			e, err := ParseCExpr(rest)
			if err != nil {
				return nil, errf(n, "%v", err)
			}
			curL.Decreases = e
		case "modifies":
			if curF == nil {
				return nil, errf(n, "modifies outside func")
			}
			if old := curF.Options["modifies"]; old != "" {
				curF.Options["modifies"] = old + ", " + rest
			} else {
				curF.Options["modifies"] = rest
			}
		case "mode":
			curF.Mode = rest
		case "theory":
			if curLem != nil {
				curLem.Theory = rest
			} else {
				curF.Theory = rest
			}
		case "layout":
			curF.Layout = rest
		case "option":
			f := strings.SplitN(rest, "=", 2)
			if len(f) == 2 {
				curF.Options[strings.TrimSpace(f[0])] = strings.TrimSpace(f[1])
			} else {
				curF.Options[strings.TrimSpace(f[0])] = "true"
			}
		case "props":
			ps := strings.Split(strings.ReplaceAll(rest, " ", ""), ",")
			if curLem != nil {
				curLem.Props = ps
			} else if curB != nil && curB.Name != "default" {
				curB.Props = ps
			} else {
				curF.Props = ps
			}
		case "trusted":
			curF.Trusted = true
		case "inline":
			curF.Inline = true
		case "rec", "pure", "pred":
			curLem = nil
			// pure func name(params) Type = body   |   pred name(params) = body
			r := rest
			if kw == "pure" || kw == "rec" {
				r = strings.TrimSpace(strings.TrimPrefix(r, "func"))
			}
			j := strings.Index(r, "(")
			k := matchParen(r, j)
			if j < 0 || k < 0 {
				return nil, errf(n, "bad pure definition")
			}
			pd := &PureDef{Pkg: pkg, Name: strings.TrimSpace(r[:j]), Params: parseParams(r[j+1 : k])}
			after := strings.TrimSpace(r[k+1:])
			eqi := strings.Index(after, "=")
			if eqi < 0 {
				return nil, errf(n, "pure definition without body")
			}
			pd.Ret = strings.TrimSpace(after[:eqi])
			if kw == "pred" {
				pd.Ret = "bool"
			}
			bodySrc := after[eqi+1:]
			if kw == "rec" {
				// optional inductive property:  ... = body  ensures  P(result)
				if k := strings.Index(bodySrc, " ensures "); k >= 0 {
					pe, err := ParseCExpr(bodySrc[k+len(" ensures "):])
					if err != nil {
						return nil, errf(n, "%v", err)
					}
					pd.Ensures = pe
					bodySrc = bodySrc[:k]
				}
			}
			e, err := ParseCExpr(bodySrc)
			if err != nil {
				return nil, errf(n, "%v", err)
			}
			pd.Body = e
			pd.Rec = kw == "rec"
			sf.Pures = append(sf.Pures, pd)
		case "uninterpreted":
			// uninterpreted name(Sort, Sort) Sort   -- an uninterpreted spec function (its meaning is assumed by whoever uses it)
			j := strings.Index(rest, "(")
			k := matchParen(rest, j)
			if j < 0 || k < 0 {
				return nil, errf(n, "bad uninterpreted declaration")
			}
			u := &UninterpDef{Pkg: pkg, Name: strings.TrimSpace(rest[:j]), Ret: strings.TrimSpace(rest[k+1:])}
			for _, a := range strings.Split(rest[j+1:k], ",") {
				if a = strings.TrimSpace(a); a != "" {
					u.Args = append(u.Args, a)
				}
			}
			sf.Uninterp = append(sf.Uninterp, u)
		case "lemma":
			curF, curB, curL = nil, nil, nil
			j := strings.Index(rest, "(")
			k := matchParen(rest, j)
			if j < 0 || k < 0 {
				return nil, errf(n, "bad lemma")
			}
			curLem = &LemmaSpec{Pkg: pkg, Name: strings.TrimSpace(rest[:j]), Params: parseParams(rest[j+1 : k])}
			sf.Lemmas = append(sf.Lemmas, curLem)
		default:
			return nil, errf(n, "unknown keyword %q", kw)
		}
	}
	return sf, nil
}

func matchParen(s string, open int) int {
	if open < 0 {
		return -1
	}
	d := 0
	for i := open; i < len(s); i++ {
		switch s[i] {
		case '(':
			d++
		case ')':
			d--
			if d == 0 {
				return i
			}
		}
	}
	return -1
}
