package main

// Replay of recorded witnesses on the real code: in-package tests injected with `go test -overlay`
// (nothing is written to /repo).

import (
	"bytes"
	"context"
	"encoding/json"
	"fmt"
	"os"
	"os/exec"
	"path/filepath"
	"regexp"
	"sort"
	"strings"
	"sync"
	"time"
)

type witnessRun struct {
	ID     string
	Status string // MANIFESTS ABSENT ERROR
	Line   string
	File   string
}

var witnessRe = regexp.MustCompile(`WITNESS (\S+) (MANIFESTS|ABSENT)(.*)`)

// runWitnesses runs the given witness tests grouped by package; returns id -> result.
func runWitnesses(repo, root string, ws map[string]*Witness) map[string]*witnessRun {
	out := map[string]*witnessRun{}
	byPkg := map[string][]string{}
	for id, w := range ws {
		if w == nil {
			continue
		}
		byPkg[w.Package] = append(byPkg[w.Package], id)
	}
	var mu sync.Mutex
	var wg sync.WaitGroup
	sem := make(chan struct{}, 6)
	for pkg, ids := range byPkg {
		wg.Add(1)
		go func(pkg string, ids []string) {
			defer wg.Done()
			sem <- struct{}{}
			defer func() { <-sem }()
			sort.Strings(ids)
			repl := map[string]string{}
			var tests []string
			for _, id := range ids {
				w := ws[id]
				src := filepath.Join(root, "replay", "known", w.File)
				dst := filepath.Join(repo, pkg, "zz_verif_witness_"+strings.TrimSuffix(w.File, "_test.go")+"_test.go")
				repl[dst] = src
				tests = append(tests, w.Test)
			}
			ov, _ := json.Marshal(map[string]interface{}{"Replace": repl})
			f, err := os.CreateTemp(scratch, "ov-*.json")
			if err != nil {
				return
			}
			f.Write(ov)
			f.Close()
			ctx, cancel := context.WithTimeout(context.Background(), 180*time.Second)
			defer cancel()
			dir := "./" + pkg
			if pkg == "" {
				dir = "."
			}
			cmd := exec.CommandContext(ctx, "go", "test", "-overlay", f.Name(), "-vet=off", "-count=1", "-timeout", "60s", "-v",
				"-run", "^("+strings.Join(tests, "|")+")$", dir)
			cmd.Dir = repo
			cmd.Env = append(os.Environ(), "GOFLAGS=-mod=mod", "GOPROXY=off", "GOSUMDB=off", "GOTOOLCHAIN=local")
			var buf bytes.Buffer
			cmd.Stdout = &buf
			cmd.Stderr = &buf
			_ = cmd.Run()
			text := buf.String()
			mu.Lock()
			defer mu.Unlock()
			for _, m := range witnessRe.FindAllStringSubmatch(text, -1) {
				out[m[1]] = &witnessRun{ID: m[1], Status: m[2], Line: strings.TrimSpace(m[0])}
			}
			for _, id := range ids {
				if out[id] == nil {
					// a panic inside the witness also shows the defect if the witness says so; otherwise report the raw failure
					st := "ERROR"
					if strings.Contains(text, "panic:") && strings.Contains(text, ws[id].Test) {
						st = "MANIFESTS"
					}
					out[id] = &witnessRun{ID: id, Status: st, Line: lastLines(text, 12)}
				}
				out[id].File = filepath.Join(root, "replay", "known", ws[id].File)
			}
		}(pkg, ids)
	}
	wg.Wait()
	return out
}

func lastLines(s string, n int) string {
	ls := strings.Split(strings.TrimSpace(s), "\n")
	if len(ls) > n {
		ls = ls[len(ls)-n:]
	}
	return strings.Join(ls, " | ")
}

func fmtWitness(w *witnessRun) string {
	if w == nil {
		return "not run"
	}
	return fmt.Sprintf("%s: %s", w.Status, w.Line)
}
