package main

// Evaluation of contract expressions over the symbolic state.

import (
	"fmt"
	"go/constant"
	"go/types"
	"math/big"
	"strings"

	"golang.org/x/tools/go/ssa"
)

type CEnv struct {
	x        *Exec
	st       *State
	old      *State // pre-state of the call / function
	entry    *State // state at loop entry
	vars     map[string]Value
	vtype    map[string]types.Type
	fr       *Frame
	fn       *ssa.Function
	at       *ssa.BasicBlock // where local names are resolved (loop header)
	pkg      string          // package path for pure/const lookup
	depth    int
	qn       int
	noUnfold bool
}

func (e *CEnv) clone() *CEnv {
	n := *e
	n.vars = map[string]Value{}
	for k, v := range e.vars {
		n.vars[k] = v
	}
	return &n
}

func (e *CEnv) withState(st *State) *CEnv {
	n := *e
	n.st = st
	return &n
}

type cevalErr struct{ msg string }

func (c cevalErr) Error() string { return c.msg }

func cfail(f string, a ...any) { panic(cevalErr{fmt.Sprintf(f, a...)}) }

// evalBool evaluates a clause to a Bool term; errors are returned, not panicked.
func (e *CEnv) evalBool(ex *CExpr) (t *Term, err error) {
	defer func() {
		if r := recover(); r != nil {
			switch v := r.(type) {
			case cevalErr:
				err = fmt.Errorf("contract expression %q: %s", ex.String(), v.msg)
			case unsupportedErr:
				err = fmt.Errorf("contract expression %q: %s", ex.String(), v.msg)
			default:
				panic(r)
			}
		}
	}()
	v := e.eval(ex)
	b, ok := v.(*Term)
	if !ok || b.S != SBool {
		return nil, fmt.Errorf("contract expression %q is not boolean (%T)", ex.String(), v)
	}
	return b, nil
}

func (e *CEnv) evalTerm(ex *CExpr) (t *Term, err error) {
	defer func() {
		if r := recover(); r != nil {
			switch v := r.(type) {
			case cevalErr:
				err = fmt.Errorf("contract expression %q: %s", ex.String(), v.msg)
			case unsupportedErr:
				err = fmt.Errorf("contract expression %q: %s", ex.String(), v.msg)
			default:
				panic(r)
			}
		}
	}()
	v := e.eval(ex)
	b, ok := v.(*Term)
	if !ok {
		return nil, fmt.Errorf("contract expression %q is not a scalar (%T)", ex.String(), v)
	}
	return b, nil
}

func (e *CEnv) asBytes(v Value) *Term {
	switch s := v.(type) {
	case *Term:
		if s.S == SBytes {
			return s
		}
	case *SliceVal:
		if isByte(s.Elt) {
			return e.x.sliceBytes(e.st, s)
		}
	case *ArrVal:
		if s.Bytes != nil {
			return s.Bytes
		}
	}
	cfail("expected a byte sequence, got %T", v)
	return nil
}

func (e *CEnv) isBytesLike(v Value) bool {
	switch s := v.(type) {
	case *Term:
		return s.S == SBytes
	case *SliceVal:
		return isByte(s.Elt)
	case *ArrVal:
		return s.Bytes != nil
	}
	return false
}

func (e *CEnv) asInt(v Value) *Term {
	if t, ok := v.(*Term); ok {
		if t.S == SInt {
			return t
		}
		if t.S.IsBV() {
			return BV2Int(t)
		}
	}
	cfail("expected an integer, got %T", v)
	return nil
}

func (e *CEnv) asBool(v Value) *Term {
	if t, ok := v.(*Term); ok && t.S == SBool {
		return t
	}
	cfail("expected a boolean, got %T", v)
	return nil
}

func (e *CEnv) deref(v Value) Value {
	if iv, ok := v.(*IfaceVal); ok && iv.Dyn != nil {
		if _, isPtr := iv.V.(*PtrVal); isPtr {
			v = iv.V
		}
	}
	if p, ok := v.(*PtrVal); ok {
		if p.Obj == nil {
			cfail("dereference of nil pointer in contract")
		}
		return e.x.load(e.st, p, nil)
	}
	return v
}

func (e *CEnv) eval(ex *CExpr) Value {
	switch ex.Kind {
	case "int":
		return IntBig(ex.Num)
	case "str":
		return e.x.strLit(e.st, ex.Str)
	case "ident":
		return e.ident(ex.Name)
	case "un":
		a := e.eval(ex.Args[0])
		switch ex.Op {
		case "!":
			return Not(e.asBool(a))
		case "-":
			t := a.(*Term)
			if t.S.IsBV() {
				return op("bvneg", t.S, t)
			}
			return Neg(e.asInt(a))
		}
	case "cond":
		c := e.asBool(e.eval(ex.Args[0]))
		a := e.eval(ex.Args[1])
		b := e.eval(ex.Args[2])
		if e.isBytesLike(a) {
			return Ite(c, e.asBytes(a), e.asBytes(b))
		}
		at, bt := e.unify(a.(*Term), b.(*Term))
		return Ite(c, at, bt)
	case "bin":
		return e.binary(ex)
	case "field":
		return e.field(ex)
	case "index":
		return e.index(ex)
	case "slice":
		b := e.eval(ex.Args[0])
		bs := e.asBytes(b)
		lo := IntLit(0)
		hi := Len(bs)
		if ex.Args[1] != nil {
			lo = e.asInt(e.eval(ex.Args[1]))
		}
		if ex.Args[2] != nil {
			hi = e.asInt(e.eval(ex.Args[2]))
		}
		return Ext(bs, lo, hi)
	case "call":
		return e.call(ex)
	case "quant":
		n := e.clone()
		var bound []*Term
		for _, v := range ex.Vars {
			e.x.qctr++
			var s *Sort
			switch v.Type {
			case "int", "Int", "":
				s = SInt
			case "Bytes", "string":
				s = SBytes
			case "bool":
				s = SBool
			case "Ord":
				s = SArr(SInt, SInt)
			default:
				if strings.HasPrefix(v.Type, "bv") {
					var w int
					fmt.Sscanf(v.Type, "bv%d", &w)
					s = SBV(w)
				} else {
					cfail("quantifier variable type %q", v.Type)
				}
			}
			c := Const(fmt.Sprintf("%s!q%d", v.Name, e.x.qctr), s)
			bound = append(bound, c)
			n.vars[v.Name] = c
		}
		body := n.asBool(n.eval(ex.Args[0]))
		if ex.Op == "forall" {
			return Forall(bound, body)
		}
		return Exists(bound, body)
	}
	cfail("cannot evaluate %s", ex.String())
	return nil
}

func (e *CEnv) ident(name string) Value {
	if v, ok := e.vars[name]; ok {
		return v
	}
	switch name {
	case "true":
		return TTrue
	case "false":
		return TFalse
	case "eps":
		return TEps
	case "nil":
		return nilMarker{}
	case "rangeord":
		if e.st.LastOrd != nil {
			return e.st.LastOrd
		}
		cfail("rangeord: no map range in scope")
	case "rangepos":
		if e.st.LastPos != nil {
			if v, ok := e.st.Heap[e.st.LastPos]; ok {
				return v
			}
		}
		cfail("rangepos: no map range in scope")
	case "alloc":
		if e.st.Alloc != nil {
			return e.st.Alloc
		}
		return IntLit(0)
	}
	// local variable at a loop head
	if e.fr != nil && e.fn != nil {
		if v, ok := e.local(name); ok {
			return v
		}
	}
	// package-level constant / variable of the contract's package
	if v, ok := e.pkgMember(e.pkg, name); ok {
		return v
	}
	// imported package name: handled in field()
	cfail("unknown identifier %q", name)
	return nil
}

type nilMarker struct{}
type pkgMarker struct{ path string }

func (e *CEnv) pkgMember(pkgPath, name string) (Value, bool) {
	sp := e.x.W.SSAPkg[pkgPath]
	if sp == nil {
		for _, p := range e.x.W.Prog.AllPackages() {
			if p.Pkg.Path() == pkgPath {
				sp = p
				break
			}
		}
	}
	if sp == nil {
		return nil, false
	}
	obj := sp.Pkg.Scope().Lookup(name)
	if obj == nil {
		return nil, false
	}
	switch o := obj.(type) {
	case *types.Const:
		switch o.Val().Kind() {
		case constant.Int:
			n, _ := new(big.Int).SetString(o.Val().ExactString(), 10)
			return e.x.intTerm(o.Type(), n), true
		case constant.Bool:
			return BoolLit(constant.BoolVal(o.Val())), true
		case constant.String:
			return e.x.strLit(e.st, constant.StringVal(o.Val())), true
		}
	case *types.Func:
		if fn, ok := sp.Members[name].(*ssa.Function); ok {
			return &FuncVal{Fn: fn, Name: name}, true
		}
	case *types.Var:
		if g, ok := sp.Members[name].(*ssa.Global); ok {
			p := &PtrVal{Obj: e.x.globalObj(g), Nil: TFalse, Glob: pkgPath + "." + name}
			return e.x.load(e.st, p, o.Type()), true
		}
	}
	return nil, false
}

// local resolves a source-level variable name at the loop header e.at.
func (e *CEnv) local(name string) (Value, bool) {
	if v, ok := e.local1(name); ok {
		return v, true
	}
	// a counter of THIS loop (a loop-carried variable when the contracts were recorded) that is gone, in a loop that is a
	// range loop now: the counter is the hidden range index plus one - decided before any renaming is tried
	if v, ok := e.counterOfRange(name, true); ok {
		return v, true
	}
	// the variable may have been renamed since the contract was written (see locals.go)
	if nn, ok := e.x.W.renames(e.fn)[name]; ok {
		return e.local1(nn)
	}
	// the loop may have changed its form since the invariant was written: `for i := 0; i < n; i++` and `for i := range s`
	// count the same iterations, the counter at the loop head being the hidden range index plus one. (As with renaming,
	// this only decides which variable an invariant speaks about; the invariant is still checked.)
	if e.at != nil {
		var rangeIdx, only *ssa.Phi
		ints := 0
		for _, in := range e.at.Instrs {
			p, ok := in.(*ssa.Phi)
			if !ok {
				break
			}
			if b, ok := p.Type().Underlying().(*types.Basic); ok && b.Kind() == types.Int {
				if p.Comment == "rangeindex" {
					rangeIdx = p
				} else {
					ints++
					only = p
				}
			}
		}
		if name == "rangeindex" && rangeIdx == nil && ints == 1 {
			if v, ok := e.fr.Regs[only].(*Term); ok {
				return Sub(v, IntLit(1)), true
			}
		}
	}
	if v, ok := e.counterOfRange(name, false); ok {
		return v, true
	}
	return nil, false
}

// counterOfRange: at the head of a loop that has a hidden range index, a vanished int variable read as that index plus one.
// strict: only if the name is recorded as a loop-carried variable of this very loop.
func (e *CEnv) counterOfRange(name string, strict bool) (Value, bool) {
	if e.at == nil || e.fn == nil || name == "rangeindex" {
		return nil, false
	}
	if strict {
		// recorded as a loop-carried variable of this loop and not one now (the name may live on as the range variable,
		// which is assigned in the body and has no value at the loop head)
		ord, ok := e.x.W.Loops(e.fn).Ord[e.at]
		if !ok || !e.x.W.wasLoopVar(e.fn, ord, name) || !e.x.W.recordedInt(e.fn, name) {
			return nil, false
		}
	} else if !e.x.W.vanishedInt(e.fn, name) {
		return nil, false
	}
	for _, in := range e.at.Instrs {
		p, ok := in.(*ssa.Phi)
		if !ok {
			break
		}
		if p.Comment == "rangeindex" {
			if v, ok := e.fr.Regs[p].(*Term); ok {
				return Add(v, IntLit(1)), true
			}
		}
	}
	return nil, false
}

func (e *CEnv) local1(name string) (Value, bool) {
	// phi at the header with that comment
	if e.at != nil {
		for _, in := range e.at.Instrs {
			p, ok := in.(*ssa.Phi)
			if !ok {
				break
			}
			if p.Comment == name {
				if v, ok := e.fr.Regs[p]; ok {
					return v, true
				}
			}
		}
	}
	// parameters
	for _, p := range e.fn.Params {
		if p.Name() == name {
			if v, ok := e.fr.Regs[p]; ok {
				return v, true
			}
		}
	}
	// debug refs: the latest definition that dominates the header (or is in it)
	refs := e.x.W.DebugNames(e.fn)[name]
	var best *ssa.DebugRef
	for _, d := range refs {
		if d.IsAddr {
			// address-taken local: value is the current content of the alloc
			if _, ok := e.fr.Regs[d.X]; ok {
				best = d
			}
			continue
		}
		if _, ok := e.fr.Regs[d.X]; !ok {
			if _, isC := d.X.(*ssa.Const); !isC {
				continue
			}
		}
		if e.at == nil || d.Block().Dominates(e.at) {
			if best == nil || best.Block().Dominates(d.Block()) {
				if _, isPhi := d.X.(*ssa.Phi); isPhi && e.at != nil && d.Block() != e.at && !d.Block().Dominates(e.at) {
					continue
				}
				best = d
			}
		}
	}
	if best != nil {
		v := e.x.val(e.st, e.fr, best.X)
		if best.IsAddr {
			return e.x.load(e.st, v.(*PtrVal), nil), true
		}
		return v, true
	}
	return nil, false
}

func (e *CEnv) unify(a, b *Term) (*Term, *Term) {
	if a.S == b.S {
		return a, b
	}
	if a.S.IsBV() && b.S == SInt {
		return a, Int2BV(b, a.S.W)
	}
	if b.S.IsBV() && a.S == SInt {
		return Int2BV(a, b.S.W), b
	}
	if a.S.IsBV() && b.S.IsBV() {
		if a.S.W < b.S.W {
			return BVZeroExt(a, b.S.W), b
		}
		return a, BVZeroExt(b, a.S.W)
	}
	cfail("sort mismatch %s vs %s", a.S, b.S)
	return nil, nil
}

func (e *CEnv) binary(ex *CExpr) Value {
	switch ex.Op {
	case "&&":
		return And(e.asBool(e.eval(ex.Args[0])), e.asBool(e.eval(ex.Args[1])))
	case "||":
		return Or(e.asBool(e.eval(ex.Args[0])), e.asBool(e.eval(ex.Args[1])))
	case "==>":
		return Implies(e.asBool(e.eval(ex.Args[0])), e.asBool(e.eval(ex.Args[1])))
	case "<==>":
		return Eq(e.asBool(e.eval(ex.Args[0])), e.asBool(e.eval(ex.Args[1])))
	}
	a := e.eval(ex.Args[0])
	b := e.eval(ex.Args[1])
	switch ex.Op {
	case "==", "!=":
		r := e.equal(a, b)
		if ex.Op == "!=" {
			return Not(r)
		}
		return r
	}
	if ex.Op == "+" && e.isBytesLike(a) {
		return Cat(e.asBytes(a), e.asBytes(b))
	}
	at, ok1 := a.(*Term)
	bt, ok2 := b.(*Term)
	if !ok1 || !ok2 {
		cfail("operator %s on %T, %T", ex.Op, a, b)
	}
	at, bt = e.unify(at, bt)
	if at.S.IsBV() {
		switch ex.Op {
		case "+":
			return BVOp("bvadd", at, bt)
		case "-":
			return BVOp("bvsub", at, bt)
		case "*":
			return BVOp("bvmul", at, bt)
		case "&":
			return BVOp("bvand", at, bt)
		case "|":
			return BVOp("bvor", at, bt)
		case "^":
			return BVOp("bvxor", at, bt)
		case "<<":
			return BVOp("bvshl", at, bt)
		case ">>":
			return BVOp("bvlshr", at, bt)
		case "/":
			return BVOp("bvudiv", at, bt)
		case "%":
			return BVOp("bvurem", at, bt)
		case "<":
			return BVCmp("bvult", at, bt)
		case "<=":
			return BVCmp("bvule", at, bt)
		case ">":
			return BVCmp("bvult", bt, at)
		case ">=":
			return BVCmp("bvule", bt, at)
		}
	}
	switch ex.Op {
	case "+":
		return Add(at, bt)
	case "-":
		return Sub(at, bt)
	case "*":
		return Mul(at, bt)
	case "/":
		return Div(at, bt)
	case "%":
		return Mod(at, bt)
	case "<":
		return Lt(at, bt)
	case "<=":
		return Le(at, bt)
	case ">":
		return Gt(at, bt)
	case ">=":
		return Ge(at, bt)
	case "<<":
		if bt.Op == "int" {
			return Mul(at, Pow2(int(bt.Num.Int64())))
		}
	case ">>":
		if bt.Op == "int" {
			return Div(at, Pow2(int(bt.Num.Int64())))
		}
	}
	cfail("operator %s not supported on %s", ex.Op, at.S)
	return nil
}

func (e *CEnv) equal(a, b Value) *Term {
	if _, ok := a.(nilMarker); ok {
		a, b = b, a
	}
	if _, ok := b.(nilMarker); ok {
		switch v := a.(type) {
		case *PtrVal:
			return v.Nil
		case *IfaceVal:
			return e.x.ifaceIsNil(v)
		case *SliceVal:
			return v.Nil
		case *MapVal:
			return e.x.mapC(e.st, v.Obj).Nil
		case nilMarker:
			return TTrue
		}
		cfail("comparison of %T with nil", a)
	}
	if e.isBytesLike(a) && e.isBytesLike(b) {
		return Eq(e.asBytes(a), e.asBytes(b))
	}
	at, ok1 := a.(*Term)
	bt, ok2 := b.(*Term)
	if ok1 && ok2 {
		at, bt = e.unify(at, bt)
		return Eq(at, bt)
	}
	switch av := a.(type) {
	case *IfaceVal:
		if bi, ok := b.(*IfaceVal); ok {
			return e.x.ifaceEq(e.st, av, bi)
		}
	case *PtrVal:
		if bp, ok := b.(*PtrVal); ok {
			return e.x.valEq(e.st, av, bp, nil)
		}
	case *StructVal:
		if bs, ok := b.(*StructVal); ok {
			return e.structEq(av, bs)
		}
	case *ArrVal:
		if ba, ok := b.(*ArrVal); ok {
			return e.x.valEq(e.st, av, ba, av.Typ)
		}
	case *SliceVal:
		if bs, ok := b.(*SliceVal); ok {
			return e.sliceEq(av, bs)
		}
	case *FuncVal:
		if bf, ok := b.(*FuncVal); ok {
			return e.x.valEq(e.st, av, bf, nil)
		}
	}
	cfail("equality between %T and %T", a, b)
	return nil
}

func (e *CEnv) sliceEq(a, b *SliceVal) *Term {
	ra := e.x.region(e.st, a.Reg)
	rb := e.x.region(e.st, b.Reg)
	if ra.Arr != nil && rb.Arr != nil && ra.Arr.S == rb.Arr.S {
		j := Const(fmt.Sprintf("j!q%d", e.x.nextQ()), SInt)
		ea := Select(ra.Arr, Add(a.Off, j))
		eb := Select(rb.Arr, Add(b.Off, j))
		return And(Eq(a.Len, b.Len), Forall([]*Term{j}, Implies(And(Le(IntLit(0), j), Lt(j, a.Len)), Eq(ea, eb))))
	}
	cfail("slice equality on unsupported representation")
	return nil
}

func (e *CEnv) structEq(a, b *StructVal) *Term {
	var cs []*Term
	for i := range a.Fields {
		cs = append(cs, e.equal(a.Fields[i], b.Fields[i]))
	}
	return And(cs...)
}

func (x *Exec) nextQ() int { x.qctr++; return x.qctr }

// field selection: through pointers, embedded structs, model fields, package qualifiers.
func (e *CEnv) field(ex *CExpr) Value {
	// package qualifier?
	if ex.Args[0].Kind == "ident" {
		if _, isVar := e.vars[ex.Args[0].Name]; !isVar {
			if _, isLocal := e.tryLocal(ex.Args[0].Name); !isLocal {
				if pp := e.importPath(ex.Args[0].Name); pp != "" {
					if v, ok := e.pkgMember(pp, ex.Name); ok {
						return v
					}
					cfail("unknown member %s.%s", ex.Args[0].Name, ex.Name)
				}
			}
		}
	}
	base := e.eval(ex.Args[0])
	base = e.deref(base)
	if v, ok := e.selectField(base, ex.Name); ok {
		return v
	}
	cfail("no field %q in %T", ex.Name, base)
	return nil
}

func (e *CEnv) tryLocal(name string) (Value, bool) {
	if e.fr == nil || e.fn == nil {
		return nil, false
	}
	return e.local(name)
}

func (e *CEnv) importPath(name string) string {
	// find the package by its name among the imports of the contract's package (and the package itself)
	for _, p := range e.x.W.Pkgs {
		if p.PkgPath == e.pkg {
			for ip, imp := range p.Imports {
				if imp.Name == name {
					return ip
				}
			}
			// also renamed imports: look at files
			for _, f := range p.Syntax {
				for _, is := range f.Imports {
					if is.Name != nil && is.Name.Name == name {
						return strings.Trim(is.Path.Value, "\"")
					}
				}
			}
		}
	}
	// any package of the program with that name (contracts may refer to packages the code does not import)
	for _, p := range e.x.W.Pkgs {
		if p.Name == name && strings.HasPrefix(p.PkgPath, modPath) {
			return p.PkgPath
		}
	}
	return ""
}

func (e *CEnv) selectField(base Value, name string) (Value, bool) {
	sv, ok := base.(*StructVal)
	if !ok {
		return nil, false
	}
	if mf := modelFields(sv.Typ); mf != nil {
		for i, f := range mf {
			if f.Name == name {
				return sv.Fields[i], true
			}
		}
		return nil, false
	}
	st, ok := under(sv.Typ).(*types.Struct)
	if !ok {
		return nil, false
	}
	for i := 0; i < st.NumFields(); i++ {
		if st.Field(i).Name() == name {
			return sv.Fields[i], true
		}
	}
	// promoted through embedded fields
	for i := 0; i < st.NumFields(); i++ {
		if st.Field(i).Embedded() {
			if v, ok := e.selectField(e.deref(sv.Fields[i]), name); ok {
				return v, true
			}
		}
	}
	return nil, false
}

func (e *CEnv) index(ex *CExpr) Value {
	base := e.eval(ex.Args[0])
	base = e.deref(base)
	switch b := base.(type) {
	case *SliceVal:
		idx := e.asInt(e.eval(ex.Args[1]))
		rv := e.x.region(e.st, b.Reg)
		if rv.Bytes != nil {
			return At(rv.Bytes, Add(b.Off, idx))
		}
		return e.x.fromElemPure(Select(rv.Arr, Add(b.Off, idx)), b.Elt)
	case *Term:
		idx := e.eval(ex.Args[1])
		if b.S == SBytes {
			return e.x.byteAt(b, e.asInt(idx))
		}
		if b.S.Kind == "Array" {
			it := idx.(*Term)
			if it.S != b.S.Idx {
				if b.S.Idx.IsBV() {
					it = Int2BV(e.asInt(it), b.S.Idx.W)
				} else {
					it = e.asInt(it)
				}
			}
			return Select(b, it)
		}
	case *ArrVal:
		idx := e.asInt(e.eval(ex.Args[1]))
		if b.Bytes != nil {
			return At(b.Bytes, idx)
		}
		if idx.Op == "int" && idx.Num.IsInt64() && int(idx.Num.Int64()) < len(b.Elems) {
			return b.Elems[idx.Num.Int64()]
		}
	case *MapVal:
		k := e.eval(ex.Args[1]).(*Term)
		return e.x.mapGet(e.st, b, k)
	}
	cfail("indexing %T", base)
	return nil
}

// fromElemPure: elements read in contracts; pointers to structs, function values and interfaces become the same Values
// the executor would read (so b.encoders[i].data or b.compareFuncs[0] == f mean what they mean in the code).
func (x *Exec) fromElemPure(t *Term, typ types.Type) Value {
	switch u := under(typ).(type) {
	case *types.Pointer:
		if _, ok := under(u.Elem()).(*types.Struct); ok {
			return x.symPtr(nil, t, u)
		}
	case *types.Signature:
		return &FuncVal{Name: "elem", Sym: t}
	case *types.Interface:
		return &IfaceVal{Sym: t, Typ: typ}
	}
	return t
}

// ---------- calls: builtin spec functions, pure definitions

func (e *CEnv) call(ex *CExpr) Value {
	fnE := ex.Args[0]
	args := ex.Args[1:]
	name := ""
	if fnE.Kind == "ident" {
		name = fnE.Name
	} else if fnE.Kind == "field" && fnE.Args[0].Kind == "ident" {
		name = fnE.Args[0].Name + "." + fnE.Name
	} else {
		cfail("call of non-identifier")
	}
	ev := func(i int) Value { return e.eval(args[i]) }
	bytesArg := func(i int) *Term { return e.asBytes(ev(i)) }
	intArg := func(i int) *Term { return e.asInt(ev(i)) }
	need := func(n int) {
		if len(args) != n {
			cfail("%s expects %d arguments", name, n)
		}
	}
	switch name {
	case "old":
		need(1)
		if e.old == nil {
			cfail("old() outside a postcondition")
		}
		return e.withState(e.old).eval(args[0])
	case "entry":
		need(1)
		if e.entry == nil {
			cfail("entry() outside a loop invariant")
		}
		n := e.withState(e.entry)
		return n.eval(args[0])
	case "len":
		need(1)
		v := e.deref(ev(0))
		switch s := v.(type) {
		case *SliceVal:
			return s.Len
		case *Term:
			if s.S == SBytes {
				return Len(s)
			}
		case *ArrVal:
			return IntLit(s.Typ.Len())
		case *MapVal:
			return e.x.mapC(e.st, s.Obj).Card
		}
		cfail("len of %T", v)
	case "cap":
		need(1)
		return ev(0).(*SliceVal).Cap
	case "cat":
		r := TEps
		for i := len(args) - 1; i >= 0; i-- {
			r = Cat(bytesArg(i), r)
		}
		return r
	case "take":
		need(2)
		return Take(bytesArg(0), intArg(1))
	case "drop":
		need(2)
		return Drop(bytesArg(0), intArg(1))
	case "ext":
		need(3)
		return Ext(bytesArg(0), intArg(1), intArg(2))
	case "at":
		need(2)
		return e.x.byteAt(bytesArg(0), intArg(1))
	case "u8":
		need(1)
		return U8(intArg(0))
	case "be16", "be32", "be64":
		need(1)
		var n int
		fmt.Sscanf(name, "be%d", &n)
		return BE(n, intArg(0))
	case "dbe16", "dbe32", "dbe64":
		need(1)
		var n int
		fmt.Sscanf(name, "dbe%d", &n)
		return DBE(n, bytesArg(0))
	case "zeros":
		need(1)
		return Zeros(intArg(0))
	case "idx0":
		need(1)
		return Idx0(bytesArg(0))
	case "nonul":
		need(1)
		return Nonul(bytesArg(0))
	case "fixed":
		need(2)
		return Fixed(bytesArg(0), intArg(1))
	case "cstr":
		need(1)
		return CStr(bytesArg(0))
	case "trim":
		need(1)
		return Trim(bytesArg(0))
	case "content", "bytes":
		need(1)
		return bytesArg(0)
	case "min":
		need(2)
		return Min(intArg(0), intArg(1))
	case "max":
		need(2)
		return Max(intArg(0), intArg(1))
	case "int", "uint8", "uint16", "uint32", "uint64", "byte", "int64":
		need(1)
		v := ev(0).(*Term)
		if e.x.bv && name != "int" {
			bits := map[string]int{"uint8": 8, "byte": 8, "uint16": 16, "uint32": 32, "uint64": 64, "int64": 64}[name]
			if v.S.IsBV() {
				if v.S.W >= bits {
					return BVExtract(bits-1, 0, v)
				}
				return BVZeroExt(v, bits)
			}
			return Int2BV(v, bits)
		}
		iv := e.asInt(v)
		switch name {
		case "uint8", "byte":
			return Mod(iv, Pow2(8))
		case "uint16":
			return Mod(iv, Pow2(16))
		case "uint32":
			return Mod(iv, Pow2(32))
		case "uint64":
			return Mod(iv, Pow2(64))
		}
		return iv
	case "bv8", "bv16", "bv32", "bv64":
		need(1)
		var w int
		fmt.Sscanf(name, "bv%d", &w)
		v := ev(0).(*Term)
		if v.S.IsBV() {
			if v.S.W >= w {
				return BVExtract(w-1, 0, v)
			}
			return BVZeroExt(v, w)
		}
		return Int2BV(v, w)
	case "isEOF":
		need(1)
		return e.x.isEOF(e.st, ev(0))
	case "connbuf", "connstream":
		need(1)
		iv, ok := ev(0).(*IfaceVal)
		if !ok || iv.Sym == nil {
			cfail("%s of a value that is not an abstract connection", name)
		}
		i := 0
		if name == "connstream" {
			i = 1
		}
		return e.x.connGet(e.st, iv, i)
	case "parsedur":
		need(1)
		return App("parsedur", SInt, bytesArg(0))
	case "parseok":
		need(1)
		return App("parseok", SBool, bytesArg(0))
	case "dec2":
		need(1)
		return App("dec2", SBytes, intArg(0))
	case "decw":
		// decw(w, n): n printed with %0wd
		need(2)
		w := intArg(0)
		if w.Op == "int" && w.Num.IsInt64() {
			switch w.Num.Int64() {
			case 2:
				return App("dec2", SBytes, intArg(1))
			case 10:
				return App("dec10", SBytes, intArg(1))
			}
		}
		return App("decw", SBytes, w, intArg(1))
	case "tfmt12":
		need(1)
		return App("tfmt12", SBytes, intArg(0))
	case "inst":
		need(1)
		return e.x.instOf(ev(0))
	case "utf8enc":
		// utf8enc(r): the octets bytes.Buffer.WriteRune / string(rune) produce for r
		need(1)
		return App("utf8enc", SBytes, intArg(0))
	case "nofault":
		// nofault(c): the blocking reads on connection c fail only when the stream ends early (no transport error)
		need(1)
		iv, ok := ev(0).(*IfaceVal)
		if !ok || iv.Sym == nil {
			cfail("nofault expects an abstract connection")
		}
		return App("conn.nofault", SBool, iv.Sym)
	case "runes":
		// runes(s): the array of runes that []rune(s) yields (its length is runecount(s))
		need(1)
		return App("runes", SArr(SInt, SInt), bytesArg(0))
	case "runeat":
		// runeat(s, i) / runelen(s, i): the rune that `for range s` yields at byte index i and its width in octets
		need(2)
		return App("runeAt", SInt, bytesArg(0), intArg(1))
	case "runelen":
		need(2)
		return App("runeLen", SInt, bytesArg(0), intArg(1))
	case "utf16units":
		// utf16units(s): the UTF-16 code units of the runes of string s, as an array; utf16len(s) their number
		need(1)
		b := bytesArg(0)
		return App("utf16units", SArr(SInt, SInt), App("runes", SArr(SInt, SInt), b), IntLit(0), App("runecount", SInt, b))
	case "utf16len":
		need(1)
		b := bytesArg(0)
		return App("utf16len", SInt, App("runes", SArr(SInt, SInt), b), IntLit(0), App("runecount", SInt, b))
	case "runecount":
		need(1)
		return App("runecount", SInt, bytesArg(0))
	case "sindex":
		need(2)
		return e.x.sindexFacts(e.st, bytesArg(0), bytesArg(1))
	case "nonsentinel":
		need(1)
		switch v := ev(0).(type) {
		case *IfaceVal:
			if v.Dyn != nil || v.Sym == nil {
				return TTrue
			}
			return Eq(App("errtag", SInt, v.Sym), IntLit(0))
		}
		return TTrue
	case "fresh":
		need(1)
		return e.x.isFresh(e.st, e.old, ev(0))
	case "kept":
		// kept(s): the elements the slice s viewed on entry are the same on exit (nothing wrote through the entry view)
		need(1)
		if e.old == nil {
			cfail("kept() outside a postcondition")
		}
		oe := e.withState(e.old)
		sv, ok := oe.deref(oe.eval(args[0])).(*SliceVal)
		if !ok {
			cfail("kept() of a non-slice")
		}
		was, now := e.x.region(e.old, sv.Reg), e.x.region(e.st, sv.Reg)
		if was == now {
			return TTrue
		}
		if was.Arr != nil && now.Arr != nil {
			j := Const(fmt.Sprintf("j!q%d", e.x.nextQ()), SInt)
			return Forall([]*Term{j}, Implies(And(Le(sv.Off, j), Lt(j, Add(sv.Off, sv.Len))), Eq(Select(now.Arr, j), Select(was.Arr, j))), Select(now.Arr, j))
		}
		if was.Bytes != nil && now.Bytes != nil {
			return Eq(Take(Drop(now.Bytes, sv.Off), sv.Len), Take(Drop(was.Bytes, sv.Off), sv.Len))
		}
		cfail("kept() across representations")
		return nil
	case "sameRegion":
		need(2)
		a, b := ev(0).(*SliceVal), ev(1).(*SliceVal)
		return BoolLit(a.Reg == b.Reg)
	case "okN", "ok8", "ok16", "ok32", "ok64", "okZ":
		as := []*Term{bytesArg(0)}
		if name == "okN" {
			as = append(as, intArg(1))
		}
		return App(name, SBool, as...)
	case "hd8", "hd16", "hd32", "hd64":
		need(1)
		return App(name, SInt, bytesArg(0))
	case "tl8", "tl16", "tl32", "tl64", "tlZ", "hdZ":
		need(1)
		return App(name, SBytes, bytesArg(0))
	case "hdC", "hdB", "tlN":
		need(2)
		return App(name, SBytes, bytesArg(0), intArg(1))
	case "hexenc", "hexdec", "md5":
		need(1)
		return App(name, SBytes, bytesArg(0))
	case "dec10":
		need(1)
		return App(name, SBytes, intArg(0))
	case "select":
		need(2)
		a := ev(0).(*Term)
		return Select(a, ev(1).(*Term))
	case "elems":
		// elems(s): the SMT array of a slice's elements (offset must be 0)
		need(1)
		s := e.deref(ev(0)).(*SliceVal)
		rv := e.x.region(e.st, s.Reg)
		if rv.Arr == nil {
			cfail("elems() of an algebraic byte region")
		}
		return rv.Arr
	case "rep":
		// rep(D, w, lo, hi): D array of Bytes
		need(4)
		return App("rep", SBytes, ev(0).(*Term), intArg(1), intArg(2), intArg(3))
	case "mapdom":
		need(2)
		mv := e.deref(ev(0)).(*MapVal)
		mc := e.x.mapC(e.st, mv.Obj)
		k := e.x.keyTerm(ev(1), mc.Dom.S.Idx)
		return And(Not(mc.Nil), Select(mc.Dom, k))
	case "tlvser":
		need(4)
		mv := e.deref(ev(0)).(*MapVal)
		return tser(e.x.mapC(e.st, mv.Obj), ev(1).(*Term), intArg(2), intArg(3))
	case "isperm":
		need(2)
		mv := e.deref(ev(1)).(*MapVal)
		return e.x.isPerm(ev(0).(*Term), e.x.mapC(e.st, mv.Obj))
	case "tlvwf":
		need(1)
		mv := e.deref(ev(0)).(*MapVal)
		return e.x.tlvWF(e.x.mapC(e.st, mv.Obj))
	case "mapeq":
		need(2)
		a := e.deref(ev(0)).(*MapVal)
		b := e.deref(ev(1)).(*MapVal)
		return e.x.mapEq(e.x.mapC(e.st, a.Obj), e.x.mapC(e.st, b.Obj))
	case "ordinv":
		need(2)
		return App("ordinv", SInt, ev(0).(*Term), ev(1).(*Term))
	case "cmdval":
		need(1)
		iv, ok := ev(0).(*IfaceVal)
		if !ok || iv.Dyn == nil {
			cfail("cmdval of a value whose dynamic type is not known")
		}
		return e.asInt(iv.V)
	case "typeIs":
		// typeIs(x, "pkg.Type") dynamic type test on interface values
		need(2)
		iv, ok := ev(0).(*IfaceVal)
		if !ok {
			cfail("typeIs on non-interface")
		}
		if iv.Dyn == nil {
			if iv.Sym == nil {
				return TFalse
			}
			return And(Ne(iv.Sym, IntLit(0)), Eq(dynTag(iv.Sym), e.x.W.tagNum(args[1].Str)))
		}
		return BoolLit(typeName(iv.Dyn) == args[1].Str)
	case "dynint":
		// dynint(x): the integer value held by an interface value whose dynamic type is integer-kinded
		need(1)
		iv, ok := ev(0).(*IfaceVal)
		if !ok {
			cfail("dynint on non-interface")
		}
		if iv.Dyn != nil {
			if t, ok := iv.V.(*Term); ok {
				return e.asInt(t)
			}
			cfail("dynint: not an integer-kinded value")
		}
		if iv.Sym == nil {
			return IntLit(0)
		}
		return dynInt(iv.Sym)
	}
	if strings.HasPrefix(name, "scanok_") {
		need(1)
		return App(name, SBool, bytesArg(0))
	}
	if strings.HasPrefix(name, "scan_") {
		need(2)
		return App(name, SInt, bytesArg(0), intArg(1))
	}
	// uninterpreted spec functions declared in a contract file
	if u, ok := e.x.W.Uninterp[name]; ok {
		if len(u.Args) != len(args) {
			cfail("%s expects %d arguments", name, len(u.Args))
		}
		sortOf := func(s string) *Sort {
			switch s {
			case "Bytes", "string":
				return SBytes
			case "bool":
				return SBool
			}
			return SInt
		}
		var as []*Term
		for i, a := range u.Args {
			if sortOf(a) == SBytes {
				as = append(as, bytesArg(i))
			} else if sortOf(a) == SBool {
				as = append(as, e.asBool(ev(i)))
			} else {
				as = append(as, intArg(i))
			}
		}
		return App(name, sortOf(u.Ret), as...)
	}
	// layout helpers
	if v, ok := e.layoutCall(name, args); ok {
		return v
	}
	// pure definitions
	if pd := e.lookupPure(name); pd != nil {
		if len(pd.Params) != len(args) {
			cfail("%s expects %d arguments", name, len(pd.Params))
		}
		if pd.Rec {
			sortOf := func(s string) *Sort {
				switch s {
				case "Bytes", "string":
					return SBytes
				case "bool":
					return SBool
				}
				return SInt
			}
			var as []*Term
			vals := make([]Value, len(args))
			for i, p := range pd.Params {
				if sortOf(p.Type) == SBytes {
					as = append(as, bytesArg(i))
				} else if sortOf(p.Type) == SBool {
					as = append(as, e.asBool(ev(i)))
				} else {
					as = append(as, intArg(i))
				}
				vals[i] = as[i]
			}
			t := App("rec."+pd.Name, sortOf(pd.Ret), as...)
			if pd.Ensures != nil && !hasBound(t) && !e.x.recfact[t] {
				// the inductive property holds of every application (proved once per definition)
				e.x.recfact[t] = true
				pn := &CEnv{x: e.x, st: e.st, vars: map[string]Value{"result": t}, pkg: pd.Pkg, noUnfold: true}
				for i, p := range pd.Params {
					pn.vars[p.Name] = vals[i]
				}
				if f, err := pn.evalBool(pd.Ensures); err == nil {
					e.x.gfacts = append(e.x.gfacts, f)
				}
			}
			if !e.noUnfold && !e.x.unfolded[t] && !hasBound(t) {
				e.x.unfolded[t] = true
				n := &CEnv{x: e.x, st: e.st, old: e.old, entry: e.entry, vars: map[string]Value{}, pkg: pd.Pkg, depth: e.depth + 1, noUnfold: true}
				for i, p := range pd.Params {
					n.vars[p.Name] = vals[i]
				}
				body := n.eval(pd.Body)
				var bt *Term
				if sortOf(pd.Ret) == SBytes {
					bt = n.asBytes(body)
				} else {
					bt = body.(*Term)
				}
				e.x.gfacts = append(e.x.gfacts, Eq(t, bt))
			}
			return t
		}
		if e.depth > 40 {
			cfail("pure function recursion too deep at %s", name)
		}
		n := &CEnv{x: e.x, st: e.st, old: e.old, entry: e.entry, vars: map[string]Value{}, pkg: pd.Pkg, depth: e.depth + 1, noUnfold: e.noUnfold}
		for i, p := range pd.Params {
			n.vars[p.Name] = ev(i)
		}
		return n.eval(pd.Body)
	}
	cfail("unknown spec function %q", name)
	return nil
}

func typeName(t types.Type) string {
	s := types.TypeString(t, func(p *types.Package) string { return shortKey(p.Path()) })
	return s
}

func (e *CEnv) lookupPure(name string) *PureDef {
	if strings.Contains(name, ".") {
		parts := strings.SplitN(name, ".", 2)
		if pp := e.importPath(parts[0]); pp != "" {
			return e.x.W.Pures[pp+"."+parts[1]]
		}
		return nil
	}
	if pd, ok := e.x.W.Pures[e.pkg+"."+name]; ok {
		return pd
	}
	// unique across packages
	var found *PureDef
	for k, pd := range e.x.W.Pures {
		if strings.HasSuffix(k, "."+name) {
			if found != nil {
				return nil
			}
			found = pd
		}
	}
	return found
}

func (x *Exec) isEOF(st *State, v Value) *Term {
	switch e := v.(type) {
	case *IfaceVal:
		if e.Dyn != nil {
			// unwrap *packet.packetOptError
			if p, ok := e.V.(*PtrVal); ok && p.Obj != nil {
				if sv, ok := x.load(st, p, nil).(*StructVal); ok {
					if st0, ok := under(sv.Typ).(*types.Struct); ok {
						for i := 0; i < st0.NumFields(); i++ {
							if st0.Field(i).Name() == "err" && isErrorT(st0.Field(i).Type()) {
								return And(Not(p.Nil), x.isEOF(st, sv.Fields[i]))
							}
						}
					}
				}
			}
			return TFalse
		}
		if e.Sym != nil {
			return App("isEOFp", SBool, e.Sym)
		}
		return TFalse
	case *PtrVal:
		if e.Obj == nil {
			return TFalse
		}
		return x.isEOF(st, &IfaceVal{Dyn: types.NewPointer(e.Obj.Typ), V: e})
	}
	return TFalse
}

func (x *Exec) isFresh(st, old *State, v Value) *Term {
	switch s := v.(type) {
	case *SliceVal:
		return objFresh(s.Reg)
	case *MapVal:
		// a map result is owned if the map object itself was made by this call (or is nil) and so were its values
		mc := x.mapC(st, s.Obj)
		own := objFresh(s.Obj)
		if x.isGlobalObj(s.Obj) {
			own = TFalse
		}
		if mc.Nil != nil {
			own = Or(mc.Nil, own)
		}
		if mc.ValFresh == nil {
			return own
		}
		return And(own, mc.ValFresh)
	case *PtrVal:
		if s.Obj == nil {
			return TFalse
		}
		return BoolLit(s.Obj.Fresh)
	}
	return TFalse
}

func objFresh(o *Obj) *Term {
	if o.FreshT != nil {
		return And(o.FreshT, BoolLit(!o.Pool))
	}
	return BoolLit(o.Fresh && !o.Pool)
}

func (e *CEnv) evalInt(ex *CExpr) (*Term, error) {
	t, err := e.evalTerm(ex)
	if err != nil {
		return nil, err
	}
	if t.S.IsBV() {
		return BV2Int(t), nil
	}
	if t.S != SInt {
		return nil, fmt.Errorf("contract expression %q is not an integer", ex.String())
	}
	return t, nil
}
