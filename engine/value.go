package main

// Symbolic values and the heap of the symbolic executor.

import (
	"fmt"
	"go/types"
	"math/big"
)

type Value interface{}

// *Term            : int / bool / string(Bytes) / float(opaque Int) scalars
// *SliceVal, *PtrVal, *StructVal, *ArrVal, *IfaceVal, *MapVal, *FuncVal, *TupleVal

type ObjKind int

const (
	ObjCell   ObjKind = iota // holds one Value of type Typ (struct, scalar, ...)
	ObjRegion                // backing store of a slice
	ObjMap
)

type Obj struct {
	ID     int
	Kind   ObjKind
	Typ    types.Type // cell: value type; region: element type; map: map type
	Name   string
	Fresh  bool  // allocated during the execution under analysis (not reachable from inputs)
	Pool   bool  // pool-owned buffer (bytebufferpool / sync.Pool)
	FreshT *Term // Bool: the object's memory is owned by this execution (not an input, not pooled, not a view of either); nil = derive from Fresh/Pool
	Opaque bool  // identity unknown (result of a havoc or of a contracted call): may alias other objects
	SymID  *Term // object named by a pointer value read out of a slice/array element (the element's Int identity); read-only
}

func (o *Obj) String() string { return fmt.Sprintf("%s#%d", o.Name, o.ID) }

// Region content: either alg (Bytes term) or arr (SMT array + length)
type RegionVal struct {
	Bytes *Term // alg representation (byte regions)
	Arr   *Term // array representation
	Len   *Term // number of elements (arr); for alg == Len(Bytes)
	// element sort for arr
}

func (r *RegionVal) Length() *Term {
	if r.Bytes != nil {
		return Len(r.Bytes)
	}
	return r.Len
}

type MapContent struct {
	ValFresh *Term            // Bool: every slice stored as (part of) a value is owned memory (see Obj.FreshT); nil = true
	Dom      *Term            // Array K Bool
	Leaves   map[string]*Term // leaf path -> Array K LeafSort
	Card     *Term            // Int, number of keys
	Nil      *Term            // Bool
}

type SliceVal struct {
	Reg *Obj
	Off *Term
	Len *Term
	Cap *Term
	Nil *Term // Bool
	Elt types.Type
}

type PtrVal struct {
	Obj   *Obj
	Path  []int // field path inside a cell
	Idx   *Term // element index inside a region (nil if not)
	Nil   *Term // Bool: pointer is nil
	Glob  string
	ArrT  *types.Array // pointer to a local array held as a region
	InArr bool         // element of a byte array held as a Bytes value inside a cell (Idx is the element index)
}

type StructVal struct {
	Typ    types.Type
	Fields []Value
}

type ArrVal struct {
	Typ   *types.Array
	Elems []Value // small arrays with concrete indices
	Bytes *Term   // byte arrays as Bytes value (length == array length)
}

type IfaceVal struct {
	Dyn types.Type // concrete dynamic type, nil if symbolic or nil interface
	V   Value
	Sym *Term // symbolic error/interface identity (Int); nil-ness is Sym == 0
	Typ types.Type
}

type MapVal struct {
	Obj *Obj
}

type FuncVal struct {
	Fn   interface{} // *ssa.Function
	Bind []Value
	Name string
	Sym  *Term // symbolic function identity (Int, 0 = nil) when the function is not known statically
}

type TupleVal struct {
	Vs []Value
}

// ---------- state

type Frame struct {
	ID     int
	Fn     interface{}
	Regs   map[interface{}]Value
	Defers []deferred
	Named  map[string]Value
}

type deferred struct {
	call interface{}
	args []Value
	fn   Value
}

type Fact struct {
	T    *Term
	Note string
}

type State struct {
	Heap    map[*Obj]Value // cell: Value; region: *RegionVal; map: *MapContent
	Facts   []*Term        // assumptions accumulated on this path (in order)
	Alloc   *Term          // ghost allocation counter (bytes)
	Globals map[string]Value
	Depth   int
	LastOrd *Term // enumeration order of the most recent map range
	LastPos *Obj
}

func (s *State) Clone() *State {
	n := &State{Heap: make(map[*Obj]Value, len(s.Heap)), Alloc: s.Alloc, Depth: s.Depth, Globals: s.Globals, LastOrd: s.LastOrd, LastPos: s.LastPos}
	for k, v := range s.Heap {
		n.Heap[k] = v
	}
	n.Facts = append([]*Term(nil), s.Facts...)
	return n
}

func (s *State) Assume(t *Term) {
	if t == nil || t.IsTrue() {
		return
	}
	if t.Op == "and" {
		for _, a := range t.Args {
			s.Facts = append(s.Facts, a)
		}
		return
	}
	s.Facts = append(s.Facts, t)
}

var objCtr = 0

func newObj(kind ObjKind, typ types.Type, name string, fresh bool) *Obj {
	objCtr++
	return &Obj{ID: objCtr, Kind: kind, Typ: typ, Name: name, Fresh: fresh}
}

// ---------- type helpers

func under(t types.Type) types.Type { return t.Underlying() }

func isByte(t types.Type) bool {
	b, ok := under(t).(*types.Basic)
	return ok && (b.Kind() == types.Uint8)
}

func isString(t types.Type) bool {
	b, ok := under(t).(*types.Basic)
	return ok && b.Info()&types.IsString != 0
}

func isBoolT(t types.Type) bool {
	b, ok := under(t).(*types.Basic)
	return ok && b.Info()&types.IsBoolean != 0
}

func isFloatT(t types.Type) bool {
	b, ok := under(t).(*types.Basic)
	return ok && b.Info()&types.IsFloat != 0
}

// bvOf: in bit-vector mode fixed-width integer types are bit-vectors; int / int64 stay mathematical
// (lengths and indices), so int2bv / bv2nat appear only at explicit Go conversions.
func (x *Exec) bvOf(t types.Type) (int, bool) {
	if !x.bv {
		return 0, false
	}
	b, ok := under(t).(*types.Basic)
	if !ok || b.Info()&types.IsInteger == 0 {
		return 0, false
	}
	switch b.Kind() {
	case types.Int, types.Int64, types.UntypedInt, types.UntypedRune:
		return 0, false
	}
	bits, _, ok := intInfo(t)
	return bits, ok
}

func isErrorT(t types.Type) bool {
	return types.Identical(t, types.Universe.Lookup("error").Type())
}

// intInfo returns (bits, signed, ok) for integer types. int/uint/uintptr are 64-bit.
func intInfo(t types.Type) (int, bool, bool) {
	b, ok := under(t).(*types.Basic)
	if !ok || b.Info()&types.IsInteger == 0 {
		return 0, false, false
	}
	switch b.Kind() {
	case types.Int8:
		return 8, true, true
	case types.Int16:
		return 16, true, true
	case types.Int32:
		return 32, true, true
	case types.Int64, types.Int, types.UntypedInt, types.UntypedRune:
		return 64, true, true
	case types.Uint8:
		return 8, false, true
	case types.Uint16:
		return 16, false, true
	case types.Uint32:
		return 32, false, true
	case types.Uint64, types.Uint, types.Uintptr:
		return 64, false, true
	}
	return 0, false, false
}

func intRange(t types.Type) (lo, hi *big.Int) {
	bits, signed, ok := intInfo(t)
	if !ok {
		return nil, nil
	}
	if signed {
		hi = new(big.Int).Lsh(big.NewInt(1), uint(bits-1))
		lo = new(big.Int).Neg(hi)
		hi.Sub(hi, big.NewInt(1))
		return
	}
	lo = big.NewInt(0)
	hi = new(big.Int).Lsh(big.NewInt(1), uint(bits))
	hi.Sub(hi, big.NewInt(1))
	return
}

// elemSort gives the SMT sort used to store values of type t inside arrays (regions, maps).
func (x *Exec) elemSort(t types.Type) *Sort {
	switch u := under(t).(type) {
	case *types.Basic:
		if u.Info()&types.IsBoolean != 0 {
			return SBool
		}
		if u.Info()&types.IsString != 0 {
			return SBytes
		}
		if bits, ok := x.bvOf(t); ok {
			return SBV(bits)
		}
		return SInt
	case *types.Slice:
		if isByte(u.Elem()) {
			return SBytes
		}
		if isString(u.Elem()) {
			return SArr(SInt, SBytes) // value abstraction of []string without length (rare)
		}
	case *types.Interface, *types.Pointer:
		return SInt
	}
	return SInt
}

// fresh symbolic value of a Go type (used for parameters, havoc, callee results).
func (x *Exec) freshValue(st *State, t types.Type, name string, input bool) Value {
	switch u := under(t).(type) {
	case *types.Basic:
		switch {
		case u.Info()&types.IsBoolean != 0:
			return Fresh(name, SBool)
		case u.Info()&types.IsString != 0:
			c := Fresh(name, SBytes)
			return c
		case u.Info()&types.IsInteger != 0:
			if bits, ok := x.bvOf(t); ok {
				return Fresh(name, SBV(bits))
			}
			c := Fresh(name, SInt)
			lo, hi := intRange(t)
			st.Assume(And(Le(IntBig(lo), c), Le(c, IntBig(hi))))
			constBounds[c] = [2]*big.Int{lo, hi}
			return c
		case u.Info()&types.IsFloat != 0:
			return Fresh(name+".float", SInt)
		case u.Kind() == types.UnsafePointer:
			return Fresh(name, SInt)
		}
	case *types.Slice:
		reg := newObj(ObjRegion, u.Elem(), name, !input)
		if !input {
			// result of a contracted call or of a havoc: ownership is whatever the contract says (unknown otherwise)
			reg.FreshT = Fresh(name+".owned", SBool)
		}
		rv := x.freshRegion(st, u.Elem(), name)
		st.Heap[reg] = rv
		nilf := Fresh(name+".nil", SBool)
		st.Assume(Implies(nilf, Eq(rv.Length(), IntLit(0))))
		cp := rv.Length()
		if rv.Arr != nil {
			// array-represented (non-octet) slices carry an unknown spare capacity
			cp = Fresh(name+".cap", SInt)
			st.Assume(Ge(cp, rv.Length()))
			st.Assume(Implies(nilf, Eq(cp, IntLit(0))))
		}
		return &SliceVal{Reg: reg, Off: IntLit(0), Len: rv.Length(), Cap: cp, Nil: nilf, Elt: u.Elem()}
	case *types.Pointer:
		o := newObj(ObjCell, u.Elem(), name, !input)
		o.Opaque = !input
		// lazily initialised: content created on first access
		return &PtrVal{Obj: o, Nil: Fresh(name+".isnil", SBool)}
	case *types.Struct:
		sv := &StructVal{Typ: t, Fields: make([]Value, u.NumFields())}
		for i := 0; i < u.NumFields(); i++ {
			sv.Fields[i] = x.freshValue(st, u.Field(i).Type(), name+"."+u.Field(i).Name(), input)
		}
		return sv
	case *types.Array:
		if isByte(u.Elem()) {
			b := Fresh(name, SBytes)
			st.Assume(Eq(Len(b), IntLit(u.Len())))
			return &ArrVal{Typ: u, Bytes: b}
		}
		av := &ArrVal{Typ: u}
		for i := int64(0); i < u.Len(); i++ {
			av.Elems = append(av.Elems, x.freshValue(st, u.Elem(), fmt.Sprintf("%s.%d", name, i), input))
		}
		return av
	case *types.Interface:
		return &IfaceVal{Sym: x.freshErr(st, name), Typ: t}
	case *types.Map:
		o := newObj(ObjMap, t, name, !input)
		st.Heap[o] = x.freshMapContent(st, u, name)
		return &MapVal{Obj: o}
	case *types.Signature:
		return &FuncVal{Name: name, Sym: Fresh(name, SInt)}
	case *types.Tuple:
		tv := &TupleVal{}
		for i := 0; i < u.Len(); i++ {
			tv.Vs = append(tv.Vs, x.freshValue(st, u.At(i).Type(), fmt.Sprintf("%s.%d", name, i), input))
		}
		return tv
	case *types.Chan:
		return Fresh(name, SInt)
	}
	panic(unsupported("fresh value of type " + t.String()))
}

func (x *Exec) freshErr(st *State, name string) *Term {
	return Fresh(name+".err", SInt)
}

func (x *Exec) freshRegion(st *State, elem types.Type, name string) *RegionVal {
	if isByte(elem) && !x.arr {
		return &RegionVal{Bytes: Fresh(name, SBytes)}
	}
	n := Fresh(name+".n", SInt)
	st.Assume(Le(IntLit(0), n))
	st.Assume(Le(n, IntBig(maxLen)))
	return &RegionVal{Arr: Fresh(name+".a", SArr(SInt, x.elemSort(elem))), Len: n}
}

var maxLen = new(big.Int).Lsh(big.NewInt(1), 40)

// leaves of a map value type: path name -> Go type
type leaf struct {
	Path string
	Typ  types.Type
}

func valueLeaves(t types.Type, prefix string, out *[]leaf) {
	switch u := under(t).(type) {
	case *types.Struct:
		for i := 0; i < u.NumFields(); i++ {
			valueLeaves(u.Field(i).Type(), prefix+"."+u.Field(i).Name(), out)
		}
	default:
		*out = append(*out, leaf{prefix, t})
	}
}

func (x *Exec) freshMapContent(st *State, m *types.Map, name string) *MapContent {
	ks := x.elemSort(m.Key())
	mc := &MapContent{Dom: Fresh(name+".dom", SArr(ks, SBool)), Leaves: map[string]*Term{}, Card: Fresh(name+".card", SInt), Nil: Fresh(name+".nil", SBool), ValFresh: Fresh(name+".valsowned", SBool)}
	var ls []leaf
	valueLeaves(m.Elem(), "", &ls)
	for _, l := range ls {
		mc.Leaves[l.Path] = Fresh(name+l.Path, SArr(ks, x.elemSort(l.Typ)))
	}
	st.Assume(Le(IntLit(0), mc.Card))
	st.Assume(Implies(mc.Nil, Eq(mc.Card, IntLit(0))))
	return mc
}

// zero value of a type
func (x *Exec) zeroValue(st *State, t types.Type) Value {
	if mf := modelFields(t); mf != nil {
		sv := &StructVal{Typ: t}
		for _, f := range mf {
			switch f.Sort {
			case SBytes:
				sv.Fields = append(sv.Fields, TEps)
			case SBool:
				sv.Fields = append(sv.Fields, TFalse)
			default:
				sv.Fields = append(sv.Fields, IntLit(0))
			}
		}
		return sv
	}
	switch u := under(t).(type) {
	case *types.Basic:
		switch {
		case u.Info()&types.IsBoolean != 0:
			return TFalse
		case u.Info()&types.IsString != 0:
			return TEps
		case u.Info()&types.IsInteger != 0:
			if bits, ok := x.bvOf(t); ok {
				return BVLit(big.NewInt(0), bits)
			}
			return IntLit(0)
		case u.Info()&types.IsFloat != 0:
			return IntLit(0)
		case u.Kind() == types.UnsafePointer:
			return IntLit(0)
		}
	case *types.Slice:
		reg := newObj(ObjRegion, u.Elem(), "nil", true)
		if isByte(u.Elem()) && !x.arr {
			st.Heap[reg] = &RegionVal{Bytes: TEps}
		} else {
			st.Heap[reg] = &RegionVal{Arr: Fresh("nilarr", SArr(SInt, x.elemSort(u.Elem()))), Len: IntLit(0)}
		}
		return &SliceVal{Reg: reg, Off: IntLit(0), Len: IntLit(0), Cap: IntLit(0), Nil: TTrue, Elt: u.Elem()}
	case *types.Pointer:
		return &PtrVal{Nil: TTrue}
	case *types.Struct:
		sv := &StructVal{Typ: t, Fields: make([]Value, u.NumFields())}
		for i := 0; i < u.NumFields(); i++ {
			sv.Fields[i] = x.zeroValue(st, u.Field(i).Type())
		}
		return sv
	case *types.Array:
		if isByte(u.Elem()) {
			return &ArrVal{Typ: u, Bytes: Zeros(IntLit(u.Len()))}
		}
		av := &ArrVal{Typ: u}
		for i := int64(0); i < u.Len(); i++ {
			av.Elems = append(av.Elems, x.zeroValue(st, u.Elem()))
		}
		return av
	case *types.Interface:
		return &IfaceVal{Sym: IntLit(0), Typ: t}
	case *types.Map:
		o := newObj(ObjMap, t, "nilmap", true)
		mc := x.freshMapContent(st, u, "nilmap")
		mc.Nil = TTrue
		mc.Card = IntLit(0)
		mc.ValFresh = TTrue
		st.Assume(x.mapEmpty(mc, u))
		st.Heap[o] = mc
		return &MapVal{Obj: o}
	case *types.Signature:
		return &FuncVal{Name: "nil"}
	case *types.Chan:
		return IntLit(0)
	}
	panic(unsupported("zero value of type " + t.String()))
}

func (x *Exec) mapEmpty(mc *MapContent, m *types.Map) *Term {
	k := Const("k!q", x.elemSort(m.Key()))
	return Forall([]*Term{k}, Not(Select(mc.Dom, k)), Select(mc.Dom, k))
}

type unsupportedErr struct{ msg string }

func (u unsupportedErr) Error() string { return "unsupported: " + u.msg }
func unsupported(msg string) error     { return unsupportedErr{msg} }

// ---------- heap access

// cellValue returns the value stored in a cell object, creating it lazily for input objects.
func (x *Exec) cellValue(st *State, o *Obj) Value {
	if v, ok := st.Heap[o]; ok {
		return v
	}
	if v, ok := x.lazy[o]; ok {
		return v
	}
	// first touch of an object that was never written: its content is the same on every path and in
	// every snapshot, so it lives in a store shared by all states; the facts about it are global
	tmp := &State{Heap: map[*Obj]Value{}}
	v := x.freshModelValue(tmp, o.Typ, o.Name, !o.Fresh)
	for k, hv := range tmp.Heap {
		x.lazy[k] = hv
	}
	x.gfacts = append(x.gfacts, tmp.Facts...)
	x.lazy[o] = v
	return v
}

func getPath(v Value, path []int) Value {
	for _, i := range path {
		switch s := v.(type) {
		case *StructVal:
			v = s.Fields[i]
		case *ArrVal:
			v = s.Elems[i]
		default:
			panic(fmt.Sprintf("getPath: not a struct: %T", v))
		}
	}
	return v
}

func setPath(v Value, path []int, nv Value) Value {
	if len(path) == 0 {
		return nv
	}
	switch s := v.(type) {
	case *StructVal:
		c := &StructVal{Typ: s.Typ, Fields: append([]Value(nil), s.Fields...)}
		c.Fields[path[0]] = setPath(s.Fields[path[0]], path[1:], nv)
		return c
	case *ArrVal:
		c := &ArrVal{Typ: s.Typ, Elems: append([]Value(nil), s.Elems...), Bytes: s.Bytes}
		c.Elems[path[0]] = setPath(s.Elems[path[0]], path[1:], nv)
		return c
	}
	panic(fmt.Sprintf("setPath: not a struct: %T", v))
}

func (x *Exec) region(st *State, o *Obj) *RegionVal {
	if v, ok := st.Heap[o]; ok {
		return v.(*RegionVal)
	}
	if v, ok := x.lazy[o]; ok {
		return v.(*RegionVal)
	}
	tmp := &State{Heap: map[*Obj]Value{}}
	rv := x.freshRegion(tmp, o.Typ, o.Name)
	x.gfacts = append(x.gfacts, tmp.Facts...)
	x.lazy[o] = rv
	return rv
}

func (x *Exec) heapGet(st *State, o *Obj) (Value, bool) {
	if v, ok := st.Heap[o]; ok {
		return v, true
	}
	v, ok := x.lazy[o]
	return v, ok
}

func (x *Exec) mapC(st *State, o *Obj) *MapContent {
	v, ok := x.heapGet(st, o)
	if !ok {
		tmp := &State{Heap: map[*Obj]Value{}}
		mc := x.freshMapContent(tmp, under(o.Typ).(*types.Map), o.Name)
		x.gfacts = append(x.gfacts, tmp.Facts...)
		x.lazy[o] = mc
		return mc
	}
	return v.(*MapContent)
}

// sliceBytes returns the Bytes content viewed by a byte slice.
func (x *Exec) sliceBytes(st *State, s *SliceVal) *Term {
	rv := x.region(st, s.Reg)
	if rv.Bytes == nil {
		// array representation: bridge through ofArr
		return App("ofArr", SBytes, rv.Arr, s.Off, s.Len)
	}
	if s.Off.Op == "int" && s.Off.Num.Sign() == 0 && s.Len == Len(rv.Bytes) {
		return rv.Bytes
	}
	return Ext(rv.Bytes, s.Off, Add(s.Off, s.Len))
}

// newByteSlice allocates a fresh region holding the given content.
func (x *Exec) newByteSlice(st *State, content *Term, name string) *SliceVal {
	reg := newObj(ObjRegion, types.Typ[types.Uint8], name, true)
	if x.arr {
		n := Fresh(name+".n", SInt)
		a := Fresh(name+".a", SArr(SInt, x.elemSort(types.Typ[types.Uint8])))
		st.Assume(Eq(n, Len(content)))
		st.Assume(Le(IntLit(0), n))
		st.Assume(Eq(App("ofArr", SBytes, a, IntLit(0), n), content))
		st.Heap[reg] = &RegionVal{Arr: a, Len: n}
		return &SliceVal{Reg: reg, Off: IntLit(0), Len: n, Cap: n, Nil: TFalse, Elt: types.Typ[types.Uint8]}
	}
	st.Heap[reg] = &RegionVal{Bytes: content}
	l := Len(content)
	return &SliceVal{Reg: reg, Off: IntLit(0), Len: l, Cap: l, Nil: TFalse, Elt: types.Typ[types.Uint8]}
}
