package main

// Per-function verification driver: sets up symbolic inputs, runs every behaviour, emits obligations.

import (
	"fmt"
	"go/types"
	"strings"

	"golang.org/x/tools/go/ssa"
)

type FuncReport struct {
	Key     string
	Spec    *FuncSpec
	Obls    []*Obligation
	Errors  []string
	Assumed map[string]bool
	Paths   int
	Returns int
	Vacuity []*Obligation // must NOT be unsat
	Bound   bool
	Callees map[string]bool // contracts assumed at call sites
	Covers  []*Obligation   // clause antecedent reachability (thorough): vacuous iff unsat on every return path
	coverN  map[string]int
}

func (w *World) newExec(fn *ssa.Function, spec *FuncSpec, beh *Behavior) *Exec {
	restartNaming()
	x := &Exec{W: w, fn: fn, spec: spec, beh: beh, ghost: map[string]Value{}, assumed: map[string]bool{},
		callees: map[string]bool{}, ordinal: map[ssa.Instruction]int{}, globals: map[string]*Obj{}, gvals: map[*Obj]Value{}, errIDs: map[string]*Term{},
		maxPath: 4000, strs: map[string]*Term{}, bufSrc: map[*Obj]*Obj{}, aliasOf: map[*Obj]*Obj{}, lazy: map[*Obj]Value{}, conns: map[*Term]*Obj{}, boxed: map[*Term]Value{}, sidx: map[*Term]bool{}, unfolded: map[*Term]bool{}, recfact: map[*Term]bool{}}
	x.bv = spec.Mode == "bv"
	x.arr = spec.Options["repr"] == "arr"
	x.theory = spec.Theory
	if x.theory == "" {
		x.theory = "T0"
	}
	if x.bv && spec.Theory == "" {
		x.theory = "none"
	}
	x.gfacts = append(x.gfacts, Not(App("isEOFp", SBool, IntLit(0))), Eq(App("errtag", SInt, IntLit(0)), IntLit(0)))
	x.assume("A-SSA")
	x.assume("A-SOLVER")
	if x.theory != "none" {
		x.assume("A-T0")
	}
	return x
}

func (w *World) resolveType(pkgPath, name string) types.Type {
	ptr := false
	if strings.HasPrefix(name, "*") {
		ptr = true
		name = name[1:]
	}
	var t types.Type
	if strings.HasPrefix(name, "[]") {
		if et := w.resolveType(pkgPath, name[2:]); et != nil && !ptr {
			return types.NewSlice(et)
		}
		return nil
	}
	switch name {
	case "int":
		t = types.Typ[types.Int]
	case "Bytes", "string":
		t = types.Typ[types.String]
	case "bool":
		t = types.Typ[types.Bool]
	case "uint8", "byte":
		t = types.Typ[types.Uint8]
	case "uint16":
		t = types.Typ[types.Uint16]
	case "uint32":
		t = types.Typ[types.Uint32]
	case "uint64":
		t = types.Typ[types.Uint64]
	default:
		pp := pkgPath
		if i := strings.LastIndex(name, "."); i >= 0 {
			q := name[:i]
			name = name[i+1:]
			for _, p := range w.Pkgs {
				if p.Name == q || strings.HasSuffix(p.PkgPath, "/"+q) {
					pp = p.PkgPath
				}
			}
		}
		sp := w.SSAPkg[pp]
		if sp == nil {
			return nil
		}
		o := sp.Pkg.Scope().Lookup(name)
		if o == nil {
			return nil
		}
		t = o.Type()
	}
	if ptr {
		t = types.NewPointer(t)
	}
	return t
}

func propsOf(c *Clause, b *Behavior, s *FuncSpec) []string {
	if len(c.Props) > 0 {
		return c.Props
	}
	if len(b.Props) > 0 {
		return b.Props
	}
	return s.Props
}

func (w *World) VerifyFunc(spec *FuncSpec) *FuncReport {
	rep := &FuncReport{Key: spec.Key, Spec: spec, Assumed: map[string]bool{}, Callees: map[string]bool{}}
	fn := w.LookupFunc(spec)
	if fn == nil {
		rep.Errors = append(rep.Errors, "contract does not bind: no function "+spec.Key+" in the current tree")
		return rep
	}
	if fn.Blocks == nil {
		rep.Errors = append(rep.Errors, "function has no body: "+spec.Key)
		return rep
	}
	if spec.Trusted {
		rep.Assumed["trusted contract (body not verified): "+shortKey(spec.Key)] = true
		return rep
	}
	for _, beh := range spec.Behaviors {
		if beh.Name == "default" && len(beh.Ensures) == 0 && len(spec.Behaviors) > 1 && spec.Options["check-default"] == "" {
			continue // nothing to prove for the bare default when named behaviours exist
		}
		if w.OnlyProp != "" && !behMentions(spec, beh, w.OnlyProp) {
			continue
		}
		w.verifyBehavior(rep, fn, spec, beh)
	}
	return rep
}

func (w *World) verifyBehavior(rep *FuncReport, fn *ssa.Function, spec *FuncSpec, beh *Behavior) {
	x := w.newExec(fn, spec, beh)
	defer func() {
		for k := range x.assumed {
			rep.Assumed[k] = true
		}
		for k := range x.callees {
			rep.Callees[k] = true
		}
		rep.Obls = append(rep.Obls, x.obls...)
		rep.Errors = append(rep.Errors, x.errs...)
		rep.Paths += x.paths + 1
		rep.Returns += x.returns
	}()
	defer func() {
		if r := recover(); r != nil {
			if u, ok := r.(unsupportedErr); ok {
				x.errs = append(x.errs, fmt.Sprintf("[%s] %s", beh.Name, u.msg))
				return
			}
			if c, ok := r.(cevalErr); ok {
				x.errs = append(x.errs, fmt.Sprintf("[%s] contract: %s", beh.Name, c.msg))
				return
			}
			// an internal error of the generator on this function: its obligations cannot be generated, which is reported
			// like any other construct outside the subset (never a crash of the whole check)
			x.errs = append(x.errs, fmt.Sprintf("[%s] internal error of the generator: %v", beh.Name, r))
		}
	}()
	st := &State{Heap: map[*Obj]Value{}}
	fr := x.newFrame(fn)
	params := map[string]Value{}
	x.assume("A-SEP")
	for _, p := range fn.Params {
		v := x.freshValue(st, p.Type(), p.Name(), true)
		fr.Regs[p] = v
		params[p.Name()] = v
	}
	w.aliasOld(fn, params)
	ghosts := map[string]Value{}
	for _, g := range beh.Ghost {
		if g.Type == "Ord" {
			ghosts[g.Name] = Fresh("ghost."+g.Name, SArr(SInt, SInt))
			continue
		}
		if g.Type == "Bytes" {
			ghosts[g.Name] = Fresh("ghost."+g.Name, SBytes)
			continue
		}
		t := w.resolveType(spec.Pkg, g.Type)
		if t == nil {
			x.fail("ghost parameter " + g.Name + ": unknown type " + g.Type)
			return
		}
		ghosts[g.Name] = x.freshValue(st, t, "ghost."+g.Name, true)
	}
	env := &CEnv{x: x, st: st, vars: map[string]Value{}, pkg: spec.Pkg}
	for k, v := range params {
		env.vars[k] = v
	}
	for k, v := range ghosts {
		env.vars[k] = v
	}
	reqs := append([]*Clause(nil), spec.Behaviors[0].Requires...)
	if beh != spec.Behaviors[0] {
		reqs = append(reqs, beh.Requires...)
	}
	for _, c := range reqs {
		t, err := env.evalBool(c.E)
		if err != nil {
			x.fail(fmt.Sprintf("[%s] requires: %v", beh.Name, err))
			return
		}
		st.Assume(t)
	}
	// a precondition of the form `param == literal` specialises the run (keeps products with it linear)
	for _, f := range st.Facts {
		if f.Op == "=" && len(f.Args) == 2 {
			c, l := f.Args[0], f.Args[1]
			if l.Op == "const" {
				c, l = l, c
			}
			if c.Op == "const" && l.IsLit() {
				for _, p := range fn.Params {
					if fr.Regs[p] == Value(c) {
						fr.Regs[p] = l
						params[p.Name()] = l
					}
				}
			}
		}
	}
	st.Alloc = IntLit(0)
	pre := st.Clone()
	x.entry = &entryCtx{params: params, pre: pre, ghosts: ghosts}
	// vacuity: requires alone must be satisfiable (must not be refutable)
	if len(st.Facts) > 0 {
		rep.Vacuity = append(rep.Vacuity, &Obligation{Name: shortKey(spec.Key) + "#" + beh.Name + ".vacuity[requires]", Kind: "vacuity",
			Facts: append(append([]*Term(nil), x.gfacts...), st.Facts...), Goal: TFalse, Theory: x.theory, Func: spec.Key, Behavior: beh.Name})
	}
	base := shortKey(spec.Key) + "#" + beh.Name
	x.execBlock(st, fr, fn.Blocks[0], nil, nil, func(st2 *State, res []Value) {
		x.returns++
		penv := &CEnv{x: x, st: st2, old: pre, vars: map[string]Value{}, pkg: spec.Pkg}
		for k, v := range params {
			penv.vars[k] = v
		}
		for k, v := range ghosts {
			penv.vars[k] = v
		}
		bindResults(penv, fn, res)
		w.aliasOld(fn, penv.vars)
		for i, c := range beh.Ensures {
			if c.Abstract {
				x.assume("A-DET")
				continue
			}
			t, err := penv.evalBool(c.E)
			label := c.Label
			if label == "" {
				label = fmt.Sprint(i)
			}
			name := fmt.Sprintf("%s.post[%s]", base, label)
			if err != nil {
				x.fail(fmt.Sprintf("[%s] ensures %s: %v", beh.Name, label, err))
				continue
			}
			x.oblige(st2, "post", name, propsOf(c, beh, spec), t, c.Text, w.pos(fn.Pos()))
			if n := len(x.obls); n > 0 && x.obls[n-1].Name == name && x.obls[n-1].Result == "" {
				x.obls[n-1].Replay = x.replaySpecFor(fn, params, st2, res)
			}
			if kf := w.Known[name]; kf != nil && kf.Residual != "" {
				// a listed known finding suppresses nothing beyond its carve-out: outside it the clause must still hold
				if ge, err := ParseCExpr(kf.Residual); err != nil {
					x.fail("known finding " + kf.ID + ": residual guard: " + err.Error())
				} else if g, err := penv.evalBool(ge); err != nil {
					x.fail("known finding " + kf.ID + ": residual guard: " + err.Error())
				} else {
					x.oblige(st2, "post", name+"~outside["+kf.ID+"]", propsOf(c, beh, spec), Implies(g, t), "("+kf.Residual+") ==> ("+c.Text+")", w.pos(fn.Pos()))
				}
			}
		}
		if w.Covers {
			// clause covers (thorough tier): an `A ==> B` clause proves nothing if A can never hold at a return
			for i, c := range beh.Ensures {
				if c.Abstract || c.E == nil || c.E.Kind != "bin" || c.E.Op != "==>" {
					continue
				}
				a, err := penv.evalBool(c.E.Args[0])
				if err != nil {
					continue
				}
				label := c.Label
				if label == "" {
					label = fmt.Sprint(i)
				}
				cname := fmt.Sprintf("%s.cover[%s]", base, label)
				if rep.coverN == nil {
					rep.coverN = map[string]int{}
				}
				if rep.coverN[cname] >= 1500 {
					continue // enough return paths sampled for this clause
				}
				rep.coverN[cname]++
				rep.Covers = append(rep.Covers, &Obligation{Name: cname, Kind: "cover", Text: c.E.Args[0].String(),
					Facts: append(append(append([]*Term(nil), x.gfacts...), st2.Facts...), a), Goal: TFalse, Theory: x.theory, Func: spec.Key, Behavior: beh.Name})
			}
		}
		if len(rep.Vacuity) < 48 {
			rep.Vacuity = append(rep.Vacuity, &Obligation{Name: fmt.Sprintf("%s.vacuity[return %d]", base, x.returns), Kind: "vacuity-path",
				Facts: append(append([]*Term(nil), x.gfacts...), st2.Facts...), Goal: TFalse, Theory: x.theory, Func: spec.Key, Behavior: beh.Name})
		}
	})
}

// merge instances of the same named obligation across paths: it holds iff all instances hold.
type OblGroup struct {
	Name      string
	Kind      string
	Props     []string
	Func      string
	Text      string
	Pos       string
	Instances []*Obligation
}

func groupObls(obls []*Obligation) []*OblGroup {
	idx := map[string]*OblGroup{}
	var out []*OblGroup
	for _, o := range obls {
		g := idx[o.Name]
		if g == nil {
			g = &OblGroup{Name: o.Name, Kind: o.Kind, Props: o.Props, Func: o.Func, Text: o.Text, Pos: o.Pos}
			idx[o.Name] = g
			out = append(out, g)
		}
		g.Instances = append(g.Instances, o)
	}
	return out
}

func (g *OblGroup) Status() string {
	st := "unsat"
	for _, o := range g.Instances {
		switch o.Result {
		case "unsat", "trivial":
		case "sat":
			return "sat"
		default:
			st = o.Result
		}
	}
	return st
}

// VerifyLemma: a lemma is a pure obligation over the theory and other definitions (no code).
func (w *World) VerifyLemma(l *LemmaSpec) *FuncReport {
	rep := &FuncReport{Key: l.Pkg + ".lemma." + l.Name, Assumed: map[string]bool{}}
	spec := &FuncSpec{Pkg: l.Pkg, Name: l.Name, Key: rep.Key, Props: l.Props, Theory: l.Theory, Options: map[string]string{}, Loops: map[int]*LoopSpec{}}
	beh := &Behavior{Name: "lemma", Props: l.Props}
	x := w.newExec(nil, spec, beh)
	if l.Theory == "none" {
		x.bv = true
		x.arr = true
	}
	defer func() {
		for k := range x.assumed {
			rep.Assumed[k] = true
		}
		rep.Obls = append(rep.Obls, x.obls...)
		rep.Errors = append(rep.Errors, x.errs...)
		if r := recover(); r != nil {
			switch v := r.(type) {
			case unsupportedErr:
				rep.Errors = append(rep.Errors, v.msg)
			case cevalErr:
				rep.Errors = append(rep.Errors, v.msg)
			default:
				panic(r)
			}
		}
	}()
	st := &State{Heap: map[*Obj]Value{}}
	env := &CEnv{x: x, st: st, vars: map[string]Value{}, pkg: l.Pkg}
	for _, p := range l.Params {
		var v Value
		switch {
		case strings.HasPrefix(p.Type, "bv"):
			var n int
			fmt.Sscanf(p.Type, "bv%d", &n)
			v = Fresh(p.Name, SBV(n))
		case p.Type == "int" || p.Type == "Int":
			v = Fresh(p.Name, SInt)
		case p.Type == "Bytes" || p.Type == "string":
			v = Fresh(p.Name, SBytes)
		case p.Type == "bool":
			v = Fresh(p.Name, SBool)
		default:
			t := w.resolveType(l.Pkg, p.Type)
			if t == nil {
				rep.Errors = append(rep.Errors, "lemma parameter "+p.Name+": unknown type "+p.Type)
				return rep
			}
			v = x.freshValue(st, t, p.Name, true)
		}
		env.vars[p.Name] = v
	}
	for _, c := range l.Requires {
		t, err := env.evalBool(c.E)
		if err != nil {
			rep.Errors = append(rep.Errors, err.Error())
			return rep
		}
		st.Assume(t)
	}
	rep.Vacuity = append(rep.Vacuity, &Obligation{Name: shortKey(rep.Key) + ".vacuity[requires]", Kind: "vacuity",
		Facts: append(append([]*Term(nil), x.gfacts...), st.Facts...), Goal: TFalse, Theory: x.theory, Func: rep.Key, Behavior: "lemma"})
	// applications of other lemmas (each proved on its own in the same run): its requires ==> its ensures, at the arguments
	for _, u := range l.Uses {
		var tgt *LemmaSpec
		for _, o := range w.Lemmas {
			if o.Name == u.Args[0].Name && o.Pkg == l.Pkg && o != l {
				tgt = o
			}
		}
		if tgt == nil || len(u.Args)-1 != len(tgt.Params) {
			rep.Errors = append(rep.Errors, "lemma "+l.Name+": use of unknown lemma or wrong arity: "+u.String())
			return rep
		}
		env2 := env.clone()
		for i, p := range tgt.Params {
			env2.vars[p.Name] = env.eval(u.Args[i+1])
		}
		var pre, post []*Term
		for _, c := range tgt.Requires {
			t, err := env2.evalBool(c.E)
			if err != nil {
				rep.Errors = append(rep.Errors, err.Error())
				return rep
			}
			pre = append(pre, t)
		}
		for _, c := range tgt.Ensures {
			t, err := env2.evalBool(c.E)
			if err != nil {
				rep.Errors = append(rep.Errors, err.Error())
				return rep
			}
			post = append(post, t)
		}
		st.Assume(Implies(And(pre...), And(post...)))
	}
	// induction hypotheses: the lemma at the given arguments, wherever the measure is a smaller natural number
	if len(l.Induct) > 0 {
		if l.Decreases == nil {
			rep.Errors = append(rep.Errors, "lemma "+l.Name+": induct without decreases")
			return rep
		}
		m0, err := env.evalInt(l.Decreases)
		if err != nil {
			rep.Errors = append(rep.Errors, err.Error())
			return rep
		}
		for _, tuple := range l.Induct {
			if len(tuple) != len(l.Params) {
				rep.Errors = append(rep.Errors, "lemma "+l.Name+": induct needs one argument per parameter")
				return rep
			}
			env2 := env.clone()
			for i, p := range l.Params {
				env2.vars[p.Name] = env.eval(tuple[i])
			}
			m1, err := env2.evalInt(l.Decreases)
			if err != nil {
				rep.Errors = append(rep.Errors, err.Error())
				return rep
			}
			var pre, post []*Term
			for _, c := range l.Requires {
				t, err := env2.evalBool(c.E)
				if err != nil {
					rep.Errors = append(rep.Errors, err.Error())
					return rep
				}
				pre = append(pre, t)
			}
			for _, c := range l.Ensures {
				t, err := env2.evalBool(c.E)
				if err != nil {
					rep.Errors = append(rep.Errors, err.Error())
					return rep
				}
				post = append(post, t)
			}
			st.Assume(Implies(And(append([]*Term{Le(IntLit(0), m1), Lt(m1, m0)}, pre...)...), And(post...)))
		}
	}
	for i, c := range l.Ensures {
		t, err := env.evalBool(c.E)
		if err != nil {
			rep.Errors = append(rep.Errors, err.Error())
			continue
		}
		label := c.Label
		if label == "" {
			label = fmt.Sprint(i)
		}
		props := c.Props
		if len(props) == 0 {
			props = l.Props
		}
		x.fn = nil
		x.obls = append(x.obls, &Obligation{Name: fmt.Sprintf("%s.lemma.%s[%s]", shortKey(l.Pkg), l.Name, label), Kind: "lemma", Props: props, Func: rep.Key, Behavior: "lemma",
			Facts: append(append([]*Term(nil), x.gfacts...), st.Facts...), Goal: t, Text: c.Text, Theory: x.theory})
	}
	return rep
}

// VerifyRecDefs: the inductive step for every recursive spec function that declares a property:
// assuming the property of the recursive applications inside the body, the body satisfies it.
func (w *World) VerifyRecDefs(prop string) *FuncReport {
	rep := &FuncReport{Key: "rec-definitions", Assumed: map[string]bool{}}
	for _, k := range sortedKeys(w.Pures) {
		pd := w.Pures[k]
		if !pd.Rec || pd.Ensures == nil {
			continue
		}
		spec := &FuncSpec{Pkg: pd.Pkg, Name: pd.Name, Key: pd.Pkg + ".rec." + pd.Name, Options: map[string]string{}, Loops: map[int]*LoopSpec{}}
		beh := &Behavior{Name: "rec"}
		x := w.newExec(nil, spec, beh)
		st := &State{Heap: map[*Obj]Value{}}
		env := &CEnv{x: x, st: st, vars: map[string]Value{}, pkg: pd.Pkg}
		var as []*Term
		for _, p := range pd.Params {
			var v *Term
			switch p.Type {
			case "Bytes", "string":
				v = Fresh(p.Name, SBytes)
			case "bool":
				v = Fresh(p.Name, SBool)
			default:
				v = Fresh(p.Name, SInt)
			}
			env.vars[p.Name] = v
			as = append(as, v)
		}
		func() {
			defer func() {
				if r := recover(); r != nil {
					rep.Errors = append(rep.Errors, fmt.Sprintf("rec %s: %v", pd.Name, r))
				}
			}()
			// evaluating the body registers the property for every recursive application in it (induction hypothesis)
			benv := env.clone()
			benv.noUnfold = true
			body := benv.eval(pd.Body)
			penv := env.clone()
			penv.noUnfold = true
			penv.vars["result"] = body
			goal, err := penv.evalBool(pd.Ensures)
			if err != nil {
				rep.Errors = append(rep.Errors, err.Error())
				return
			}
			rep.Obls = append(rep.Obls, &Obligation{Name: shortKey(pd.Pkg) + ".rec." + pd.Name + "[inductive]", Kind: "lemma", Props: []string{prop}, Func: spec.Key, Behavior: "rec",
				Facts: append(append([]*Term(nil), x.gfacts...), st.Facts...), Goal: goal, Text: "inductive step: " + pd.Ensures.String(), Theory: "T0"})
		}()
	}
	return rep
}
