package main

// Assumed models used by the login-authenticator functions (C15): crypto/md5 as an uninterpreted function with a
// 16-octet result, bytes.Join, bytes.Buffer writes, fmt.Sprintf("%010d"), time formatting + strconv.Atoi of the
// MMDDhhmmss timestamp, hash.Hash.

import (
	"fmt"
	"go/constant"
	"go/types"
	"math/big"
	"strings"

	"golang.org/x/tools/go/ssa"
)

func (x *Exec) md5Of(st *State, b *Term) *Term {
	r := App("md5", SBytes, b)
	st.Assume(Eq(App("len", SInt, r), IntLit(16)))
	return r
}

// variadic / slice-literal elements boxed as interface values keep their concrete value in a side table
func (x *Exec) unbox(st *State, s *SliceVal, i int64) (Value, bool) {
	rv := x.region(st, s.Reg)
	if rv.Arr == nil {
		return nil, false
	}
	id := Select(rv.Arr, Add(s.Off, IntLit(i)))
	v, ok := x.boxed[id]
	return v, ok
}

func init() {
	assumptionText["A-FMT10"] = "fmt.Sprintf(\"%010d\", t) for 0 <= t < 10^10 is the ten-digit zero-padded decimal of t (dec10)"
	reg("crypto/md5.Sum", func(x *Exec, st *State, fr *Frame, in ssa.Instruction, callee *ssa.Function, args []Value) []Value {
		x.assume("A-MD5")
		d := x.sliceBytes(st, args[0].(*SliceVal))
		return one(&ArrVal{Typ: callee.Signature.Results().At(0).Type().Underlying().(*types.Array), Bytes: x.md5Of(st, d)})
	})
	reg("bytes.Join", func(x *Exec, st *State, fr *Frame, in ssa.Instruction, callee *ssa.Function, args []Value) []Value {
		x.assume("A-BUF")
		s := args[0].(*SliceVal)
		sep := x.sliceBytes(st, args[1].(*SliceVal))
		if !(s.Len.Op == "int" && s.Len.Num.IsInt64() && s.Len.Num.Int64() <= 8) {
			panic(unsupported("bytes.Join over a slice of symbolic length"))
		}
		rv := x.region(st, s.Reg)
		n := s.Len.Num.Int64()
		r := TEps
		for i := n - 1; i >= 0; i-- {
			if i < n-1 {
				r = Cat(sep, r)
			}
			r = Cat(Select(rv.Arr, Add(s.Off, IntLit(i))), r)
		}
		x.countAllocN(st, Len(r))
		return one(x.newByteSlice(st, r, "joined"))
	})
	reg("bytes.(*Buffer).WriteString", func(x *Exec, st *State, fr *Frame, in ssa.Instruction, callee *ssa.Function, args []Value) []Value {
		x.assume("A-BUF")
		b := x.needPtr(st, in, args[0])
		s := args[1].(*Term)
		setBufUnread(x, st, b, Cat(bufUnread(x, st, b), s))
		return []Value{Len(s), nilErr()}
	})
	reg("bytes.(*Buffer).Write", func(x *Exec, st *State, fr *Frame, in ssa.Instruction, callee *ssa.Function, args []Value) []Value {
		x.assume("A-BUF")
		b := x.needPtr(st, in, args[0])
		s := x.sliceBytes(st, args[1].(*SliceVal))
		setBufUnread(x, st, b, Cat(bufUnread(x, st, b), s))
		return []Value{Len(s), nilErr()}
	})
	reg("bytes.(*Buffer).WriteRune", func(x *Exec, st *State, fr *Frame, in ssa.Instruction, callee *ssa.Function, args []Value) []Value {
		x.assume("A-BUF")
		b := x.needPtr(st, in, args[0])
		r := x.toInt(args[1].(*Term))
		enc := App("utf8enc", SBytes, r)
		st.Assume(And(Le(IntLit(1), App("len", SInt, enc)), Le(App("len", SInt, enc), IntLit(4))))
		setBufUnread(x, st, b, Cat(bufUnread(x, st, b), enc))
		x.countAllocN(st, IntLit(8)) // amortised growth of the buffer
		return []Value{Len(enc), nilErr()}
	})
	reg("fmt.Sprintf", func(x *Exec, st *State, fr *Frame, in ssa.Instruction, callee *ssa.Function, args []Value) []Value {
		x.assume("A-FMT")
		format, isConst := "", false
		if c, ok := in.(*ssa.Call); ok && len(c.Call.Args) > 0 {
			if k, ok := c.Call.Args[0].(*ssa.Const); ok && k.Value != nil {
				format, isConst = strings.Trim(k.Value.ExactString(), "\""), true
			}
		}
		if isConst && format == "%010d" {
			if va, ok := args[1].(*SliceVal); ok && va.Len.Op == "int" && va.Len.Num.Int64() == 1 {
				if v, ok := x.unbox(st, va, 0); ok {
					if iv, ok := v.(*IfaceVal); ok && iv.Dyn != nil {
						if t, ok := iv.V.(*Term); ok {
							x.assume("A-FMT10")
							n := x.toInt(t)
							r := App("dec10", SBytes, n)
							st.Assume(Implies(And(Le(IntLit(0), n), Lt(n, IntLit(10000000000))), And(Eq(App("len", SInt, r), IntLit(10)), Nonul(r))))
							x.countAllocN(st, IntLit(16))
							return one(r)
						}
					}
				}
			}
		}
		if isConst && format == "0000%02d%02d%02d%02d000R" {
			if va, ok := args[1].(*SliceVal); ok && va.Len.Op == "int" && va.Len.Num.Int64() == 4 {
				parts := []*Term{x.strLit(st, "0000")}
				good := true
				for i := int64(0); i < 4; i++ {
					v, ok := x.unbox(st, va, i)
					iv, ok2 := v.(*IfaceVal)
					if !ok || !ok2 || iv.Dyn == nil {
						good = false
						break
					}
					n := x.toInt(iv.V.(*Term))
					d2 := App("dec2", SBytes, n)
					st.Assume(Implies(And(Le(IntLit(0), n), Le(n, IntLit(99))), Eq(App("len", SInt, d2), IntLit(2))))
					parts = append(parts, d2)
				}
				if good {
					x.assume("A-FMT2")
					parts = append(parts, x.strLit(st, "000R"))
					return one(CatN(parts...))
				}
			}
		}
		if isConst {
			if r, ok := x.sprintfConst(st, k2s(in), args); ok {
				return one(r)
			}
		}
		// any other format: some string (its content is not modelled)
		r := Fresh("sprintf", SBytes)
		x.countAllocN(st, Len(r))
		return one(r)
	})
	reg("time.(Time).Format", func(x *Exec, st *State, fr *Frame, in ssa.Instruction, callee *ssa.Function, args []Value) []Value {
		x.assume("A-ATOI")
		layout := args[1].(*Term)
		if layout == x.strLit(st, "0102150405") {
			v := Fresh("mmddhhmmss", SInt)
			st.Assume(And(Le(IntLit(0), v), Le(v, IntLit(1231235959))))
			r := App("dec10", SBytes, v)
			st.Assume(And(Eq(App("len", SInt, r), IntLit(10)), Nonul(r)))
			return one(r)
		}
		return one(Fresh("timefmt", SBytes))
	})
	reg("strconv.Atoi", func(x *Exec, st *State, fr *Frame, in ssa.Instruction, callee *ssa.Function, args []Value) []Value {
		x.assume("A-ATOI")
		s := args[0].(*Term)
		if s.Op == "app" && s.Name == "dec10" {
			return []Value{s.Args[0], nilErr()}
		}
		n := Fresh("atoi", SInt)
		ok := Fresh("atoi.ok", SBool)
		st.Assume(Implies(Not(ok), Eq(n, IntLit(0))))
		return []Value{n, x.condErr(st, "atoi", ok, TFalse)}
	})
	// hash.Hash as returned by md5.New(): ghost accumulated input
	reg("crypto/md5.New", func(x *Exec, st *State, fr *Frame, in ssa.Instruction, callee *ssa.Function, args []Value) []Value {
		x.assume("A-MD5")
		h := &IfaceVal{Sym: Fresh("md5hash", SInt), Typ: callee.Signature.Results().At(0).Type()}
		st.Assume(Ne(h.Sym, IntLit(0)))
		o := newObj(ObjCell, nil, "hash", true)
		x.conns[h.Sym] = o
		st.Heap[o] = &StructVal{Fields: []Value{TEps, TEps}}
		return one(h)
	})
	regI("error.Error", func(x *Exec, st *State, fr *Frame, in ssa.Instruction, recv *IfaceVal, args []Value) []Value {
		// the text of an error value: some string determined by the error (nothing more is assumed)
		x.assume("A-FMT")
		if recv.Sym != nil {
			return []Value{App("errtext", SBytes, recv.Sym)}
		}
		return []Value{Fresh("errtext", SBytes)}
	})
	regI("hash.Hash.Write", func(x *Exec, st *State, fr *Frame, in ssa.Instruction, recv *IfaceVal, args []Value) []Value {
		x.assume("A-MD5")
		d := x.sliceBytes(st, args[0].(*SliceVal))
		x.connSet(st, recv, 0, Cat(x.connGet(st, recv, 0), d))
		return []Value{Len(d), nilErr()}
	})
	regI("hash.Hash.Sum", func(x *Exec, st *State, fr *Frame, in ssa.Instruction, recv *IfaceVal, args []Value) []Value {
		x.assume("A-MD5")
		pre := x.sliceBytes(st, args[0].(*SliceVal))
		return one(x.newByteSlice(st, Cat(pre, x.md5Of(st, x.connGet(st, recv, 0))), "sum"))
	})
	_ = fmt.Sprint
}

// k2s: the constant format string of a Sprintf call (with Go escapes resolved).
func k2s(in ssa.Instruction) string {
	if c, ok := in.(*ssa.Call); ok && len(c.Call.Args) > 0 {
		if k, ok := c.Call.Args[0].(*ssa.Const); ok && k.Value != nil && k.Value.Kind() == constant.String {
			return constant.StringVal(k.Value)
		}
	}
	return ""
}

// sprintfConst: Sprintf with a constant format made of literal text, %s on strings and %d / %0Nd on integers
// (A-FMT: %0Nd of 0 <= n < 10^N is exactly N decimal digits; dec2 and dec10 are the N = 2 and N = 10 cases).
func (x *Exec) sprintfConst(st *State, format string, args []Value) (*Term, bool) {
	va, ok := args[1].(*SliceVal)
	if !ok || va.Len.Op != "int" {
		return nil, false
	}
	nargs := va.Len.Num.Int64()
	var parts []*Term
	lit := ""
	flush := func() {
		if lit != "" {
			parts = append(parts, x.strLit(st, lit))
			lit = ""
		}
	}
	ai := int64(0)
	for i := 0; i < len(format); i++ {
		c := format[i]
		if c != '%' {
			lit += string(c)
			continue
		}
		j := i + 1
		if j < len(format) && format[j] == '%' {
			lit += "%"
			i = j
			continue
		}
		width, zero := 0, false
		if j < len(format) && format[j] == '0' {
			zero = true
			j++
		}
		for j < len(format) && format[j] >= '0' && format[j] <= '9' {
			width = width*10 + int(format[j]-'0')
			j++
		}
		if j >= len(format) || ai >= nargs {
			return nil, false
		}
		v, ok := x.unbox(st, va, ai)
		ai++
		iv, ok2 := v.(*IfaceVal)
		if !ok || !ok2 || iv.Dyn == nil {
			return nil, false
		}
		switch format[j] {
		case 'd':
			t, ok := iv.V.(*Term)
			if !ok || !isIntegerT(iv.Dyn) || (width > 0 && !zero) {
				return nil, false
			}
			n := x.toInt(t)
			flush()
			var d *Term
			switch width {
			case 2:
				d = App("dec2", SBytes, n)
			case 10:
				d = App("dec10", SBytes, n)
			default:
				d = App("decw", SBytes, IntLit(int64(width)), n)
			}
			if width > 0 && width <= 18 {
				lim := new(big.Int).Exp(big.NewInt(10), big.NewInt(int64(width)), nil)
				st.Assume(Implies(And(Le(IntLit(0), n), Lt(n, IntBig(lim))), Eq(App("len", SInt, d), IntLit(int64(width)))))
			}
			parts = append(parts, d)
		case 's':
			t, ok := iv.V.(*Term)
			if !ok || t.S != SBytes || width > 0 {
				return nil, false
			}
			flush()
			parts = append(parts, t)
		default:
			return nil, false
		}
		i = j
	}
	if ai != nargs {
		return nil, false
	}
	flush()
	x.assume("A-FMT2")
	r := CatN(parts...)
	x.countAllocN(st, Len(r))
	return r, true
}

// scanName: the spec-function suffix for a Sscanf format made only of %[0]Nd verbs, e.g. "2_2_2_2_2_7_5"; ok=false otherwise.
func scanName(format string) (string, []int, bool) {
	var ws []int
	for i := 0; i < len(format); {
		if format[i] != '%' {
			return "", nil, false
		}
		j := i + 1
		w := 0
		for j < len(format) && format[j] >= '0' && format[j] <= '9' {
			w = w*10 + int(format[j]-'0')
			j++
		}
		if j >= len(format) || format[j] != 'd' || w == 0 || w > 18 {
			return "", nil, false
		}
		ws = append(ws, w)
		i = j + 1
	}
	if len(ws) == 0 {
		return "", nil, false
	}
	parts := make([]string, len(ws))
	for i, w := range ws {
		parts[i] = fmt.Sprint(w)
	}
	return strings.Join(parts, "_"), ws, true
}

func init() {
	assumptionText["A-SCAN"] = "fmt.Sscanf with a constant format of %0Nd verbs is a partial function of the input: it succeeds or not (scanok_<widths>(s)) and, when it succeeds, stores scan_<widths>(s, i) into its i-th target; that it inverts Sprintf of the same format on in-range fields is a hypothesis of the lemma that uses it, exercised by the MSGID stand-in"
	reg("fmt.Sscanf", func(x *Exec, st *State, fr *Frame, in ssa.Instruction, callee *ssa.Function, args []Value) []Value {
		name, ws, ok := scanName(k2sArg(in, 1))
		va, ok2 := args[2].(*SliceVal)
		if !ok || !ok2 || va.Len.Op != "int" || va.Len.Num.Int64() != int64(len(ws)) {
			panic(unsupported("fmt.Sscanf with a format other than a constant sequence of %0Nd verbs"))
		}
		x.assume("A-SCAN")
		s := args[0].(*Term)
		okT := App("scanok_"+name, SBool, s)
		for i := range ws {
			v, ok := x.unbox(st, va, int64(i))
			iv, ok2 := v.(*IfaceVal)
			if !ok || !ok2 || iv.Dyn == nil {
				panic(unsupported("fmt.Sscanf target not known statically"))
			}
			pt, ok := iv.Dyn.(*types.Pointer)
			if !ok {
				panic(unsupported("fmt.Sscanf target " + iv.Dyn.String()))
			}
			bits, ok := dynIntBits(pt.Elem())
			if !ok {
				panic(unsupported("fmt.Sscanf target " + iv.Dyn.String()))
			}
			dst := iv.V.(*PtrVal)
			x.safety(st, "nil", in, Not(dst.Nil), "Sscanf target not nil")
			// on success the scanned field; on failure whatever had been stored before the failure (unknown)
			nv := Fresh("scanned", SInt)
			st.Assume(Implies(okT, Eq(nv, App("scan_"+name, SInt, s, IntLit(int64(i))))))
			lo, hi := intRange(pt.Elem())
			st.Assume(And(Le(IntBig(lo), nv), Le(nv, IntBig(hi))))
			var stored Value = nv
			if x.bv {
				stored = Int2BV(nv, bits)
			}
			x.store(st, in, dst, stored)
		}
		n := Fresh("scan.n", SInt)
		st.Assume(And(Le(IntLit(0), n), Le(n, IntLit(int64(len(ws)))), Implies(okT, Eq(n, IntLit(int64(len(ws)))))))
		return []Value{n, x.condErr(st, "sscanf", okT, nil)}
	})
}

// k2sArg: the constant string passed as the i-th argument of a call.
func k2sArg(in ssa.Instruction, i int) string {
	if c, ok := in.(*ssa.Call); ok && len(c.Call.Args) > i {
		if k, ok := c.Call.Args[i].(*ssa.Const); ok && k.Value != nil && k.Value.Kind() == constant.String {
			return constant.StringVal(k.Value)
		}
	}
	return ""
}
