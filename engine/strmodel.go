package main

// strings.Index as an uninterpreted function sindex(s, sub) with its defining facts (A-BUF):
// the result is the first position where sub occurs, or -1.

import (
	"fmt"

	"golang.org/x/tools/go/ssa"
)

func (x *Exec) sindexFacts(st *State, s, sub *Term) *Term {
	r := App("sindex", SInt, s, sub)
	if x.sidx[r] {
		return r
	}
	x.sidx[r] = true
	// the quantified fact is stated over plain constants (patterns may not contain ite / not)
	alias := func(t *Term) *Term {
		if t.Op == "const" {
			return t
		}
		c := Fresh("str", SBytes)
		x.gfacts = append(x.gfacts, Eq(c, t))
		return c
	}
	s, sub = alias(s), alias(sub)
	n := Len(sub)
	k := Const(fmt.Sprintf("k!q%d", x.nextQ()), SInt)
	occ := func(i *Term) *Term { return Eq(App("ext", SBytes, s, i, Add(i, n)), sub) }
	facts := And(
		Le(IntLit(-1), r), Le(Add(r, n), Max(Len(s), Add(IntLit(-1), n))),
		Implies(Ge(r, IntLit(0)), And(occ(r), Le(Add(r, n), Len(s)))),
		// no earlier occurrence (r >= 0), no occurrence at all (r == -1)
		Forall([]*Term{k}, Implies(And(Le(IntLit(0), k), Le(Add(k, n), Len(s)), Or(Lt(k, r), Eq(r, IntLit(-1)))), Not(occ(k))), App("ext", SBytes, s, k, Add(k, n))),
	)
	x.gfacts = append(x.gfacts, facts)
	return r
}

func init() {
	// equality and prefix/suffix tests are definable in the sequence theory itself (no assumption beyond A-BUF's "as documented")
	bytesOf := func(x *Exec, st *State, v Value) *Term {
		if sv, ok := v.(*SliceVal); ok {
			return x.sliceBytes(st, sv)
		}
		return v.(*Term)
	}
	reg("bytes.Equal", func(x *Exec, st *State, fr *Frame, in ssa.Instruction, callee *ssa.Function, args []Value) []Value {
		x.assume("A-BUF")
		return one(Eq(bytesOf(x, st, args[0]), bytesOf(x, st, args[1])))
	})
	for _, pkg := range []string{"bytes", "strings"} {
		reg(pkg+".HasPrefix", func(x *Exec, st *State, fr *Frame, in ssa.Instruction, callee *ssa.Function, args []Value) []Value {
			x.assume("A-BUF")
			s, p := bytesOf(x, st, args[0]), bytesOf(x, st, args[1])
			return one(And(Ge(Len(s), Len(p)), Eq(Take(s, Len(p)), p)))
		})
		reg(pkg+".HasSuffix", func(x *Exec, st *State, fr *Frame, in ssa.Instruction, callee *ssa.Function, args []Value) []Value {
			x.assume("A-BUF")
			s, p := bytesOf(x, st, args[0]), bytesOf(x, st, args[1])
			return one(And(Ge(Len(s), Len(p)), Eq(Drop(s, Sub(Len(s), Len(p))), p)))
		})
	}
	reg("strings.IndexByte", func(x *Exec, st *State, fr *Frame, in ssa.Instruction, callee *ssa.Function, args []Value) []Value {
		x.assume("A-BUF")
		c := x.toInt(args[1].(*Term))
		if c.Op == "int" && c.Num.Sign() == 0 {
			return one(Idx0(args[0].(*Term))) // the first NUL: the theory's own observer (as for bytes.IndexByte)
		}
		return one(x.sindexFacts(st, args[0].(*Term), U8(c)))
	})
	reg("strings.Contains", func(x *Exec, st *State, fr *Frame, in ssa.Instruction, callee *ssa.Function, args []Value) []Value {
		x.assume("A-BUF")
		return one(Ge(x.sindexFacts(st, args[0].(*Term), args[1].(*Term)), IntLit(0)))
	})
	reg("strings.Index", func(x *Exec, st *State, fr *Frame, in ssa.Instruction, callee *ssa.Function, args []Value) []Value {
		x.assume("A-BUF")
		return one(x.sindexFacts(st, args[0].(*Term), args[1].(*Term)))
	})
}
