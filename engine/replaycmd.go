package main

import (
	"encoding/json"
	"fmt"
	"os"
	"strings"
	"time"
)

// cmdReplay re-runs what a replay file written by `check` describes, on the current tree:
//   - a witness of a listed finding (finding=...): the witness test is run on the real code;
//   - a bounded stand-in failure (failing_input=...): the stand-in validators are run again;
//   - a failed obligation: the function (or lemma) is verified again and only that obligation is reported.
//
// Exit 1 if the failure reproduces, 0 if it does not.
func cmdReplay(repo, root string, args []string) int {
	if len(args) != 1 {
		fmt.Fprintln(os.Stderr, "usage: govc replay <replay-file.json>")
		return 2
	}
	b, err := os.ReadFile(args[0])
	if err != nil {
		fmt.Fprintln(os.Stderr, err)
		return 2
	}
	var r map[string]interface{}
	if err := json.Unmarshal(b, &r); err != nil {
		fmt.Fprintln(os.Stderr, err)
		return 2
	}
	str := func(k string) string { s, _ := r[k].(string); return s }
	if id := str("finding"); id != "" {
		known, err := loadKnown(root)
		if err != nil {
			fmt.Fprintln(os.Stderr, err)
			return 2
		}
		ws := map[string]*Witness{}
		for _, k := range known.Findings {
			if k.ID == id {
				ws[id] = k.Witness
			}
		}
		for _, k := range known.Fixed {
			if k.ID == id {
				ws[id] = k.Witness
			}
		}
		res := runWitnesses(repo, root, ws)
		if w := res[id]; w != nil {
			fmt.Printf("%s %s\n", id, fmtWitness(w))
			if w.Status == "MANIFESTS" {
				return 1
			}
			return 0
		}
		return 2
	}
	if str("failing_input") != "" {
		var names []string
		if vs, ok := r["validators"].([]interface{}); ok {
			for _, v := range vs {
				names = append(names, fmt.Sprint(v))
			}
		}
		if len(names) == 0 {
			names = []string{"XTEXT", "AGREE", "BUILD", "MSGID"}
		}
		_, fails, err := runStandIns(repo, root, names, false)
		if err != nil {
			fmt.Fprintln(os.Stderr, err)
			return 2
		}
		for _, f := range fails {
			fmt.Println("failing input:", f)
		}
		if len(fails) > 0 {
			return 1
		}
		fmt.Println("the stand-in validators pass on this tree")
		return 0
	}
	name := str("obligation")
	if name == "" {
		fmt.Fprintln(os.Stderr, "replay file names neither a finding, a failing input nor an obligation")
		return 2
	}
	w, err := LoadWorld(repo, root)
	if err != nil {
		fmt.Fprintln(os.Stderr, err)
		return 2
	}
	var obls []*Obligation
	head := name
	if i := strings.Index(name, "#"); i >= 0 {
		head = name[:i]
	}
	for _, k := range sortedKeys(w.Specs) {
		if shortKey(k) == head {
			obls = append(obls, w.VerifyFunc(w.Specs[k]).Obls...)
		}
	}
	if len(obls) == 0 {
		for _, l := range w.Lemmas {
			if strings.Contains(name, ".lemma."+l.Name+"[") {
				obls = append(obls, w.VerifyLemma(l).Obls...)
			}
		}
	}
	var mine []*Obligation
	for _, o := range obls {
		if o.Name == name {
			mine = append(mine, o)
		}
	}
	if len(mine) == 0 {
		fmt.Printf("obligation %q is not generated on this tree (the function or clause no longer exists, or its generation fails)\n", name)
		return 1
	}
	dischargeAll(mine, 30*time.Second, 8, allSolvers)
	bad := 0
	for _, o := range mine {
		fmt.Printf("%-8s %s (path %d, %s %dms) -- %s\n", o.Result, o.Name, o.Path, o.Solver, o.TimeMS, o.Text)
		if o.Result != "unsat" && o.Result != "trivial" {
			bad++
		}
	}
	if bad > 0 {
		return 1
	}
	return 0
}
