package main

// Replay of solver counterexamples (ground obligations) on the real code:
// the model's inputs are read back with get-value, the function is run on them through an in-package
// test injected by overlay, and the real outputs are compared with the outputs the model predicts.
// If they agree, the real code violates the failed clause exactly as the counterexample says.

import (
	"bytes"
	"context"
	"encoding/json"
	"fmt"
	"go/types"
	"math/big"
	"os"
	"os/exec"
	"path/filepath"
	"regexp"
	"strings"
	"time"

	"golang.org/x/tools/go/ssa"
)

type RP struct {
	Name   string
	Kind   string // string bytes int bool
	GoType string
	Term   *Term
}

type ReplaySpec struct {
	PkgDir  string
	PkgName string
	Call    string
	Params  []RP
	Results []RP
	// ExpectPanic: the counterexample falsifies a safety obligation (index, slice bounds, nil, ...): the real call must panic
	ExpectPanic bool
}

func (r *ReplaySpec) nResults() int { return len(r.Results) }

func replayKind(t types.Type) (string, bool) {
	switch {
	case isString(t):
		return "string", true
	case isSliceOfByte(t):
		return "bytes", true
	case isBoolT(t):
		return "bool", true
	case isIntegerT(t):
		return "int", true
	}
	return "", false
}

// replaySpecFor builds the spec for plain functions whose parameters and results are scalars, strings or byte slices.
func (x *Exec) replaySpecFor(fn *ssa.Function, params map[string]Value, st *State, results []Value) *ReplaySpec {
	if fn == nil || fn.Signature.Recv() != nil || fn.Pkg == nil {
		return nil
	}
	rs := &ReplaySpec{PkgName: fn.Pkg.Pkg.Name(), Call: fn.Name()}
	rs.PkgDir = strings.TrimPrefix(strings.TrimPrefix(fn.Pkg.Pkg.Path(), modPath), "/")
	qual := func(p *types.Package) string {
		if p == fn.Pkg.Pkg {
			return ""
		}
		return p.Name()
	}
	conv := func(v Value, t types.Type, name string) (RP, bool) {
		k, ok := replayKind(t)
		if !ok {
			return RP{}, false
		}
		var term *Term
		switch s := v.(type) {
		case *Term:
			term = s
		case *SliceVal:
			term = x.sliceBytes(st, s)
		default:
			return RP{}, false
		}
		return RP{Name: name, Kind: k, GoType: types.TypeString(t, qual), Term: term}, true
	}
	for _, p := range fn.Params {
		rp, ok := conv(params[p.Name()], p.Type(), p.Name())
		if !ok {
			return nil
		}
		rs.Params = append(rs.Params, rp)
	}
	res := fn.Signature.Results()
	if results == nil {
		// safety obligation inside the body: inputs only; declare result names for the call statement
		rs.ExpectPanic = true
		for i := 0; i < res.Len(); i++ {
			rs.Results = append(rs.Results, RP{Name: fmt.Sprintf("r%d", i), Kind: "skip"})
		}
		return rs
	}
	for i := 0; i < res.Len(); i++ {
		if i >= len(results) {
			return nil
		}
		rp, ok := conv(results[i], res.At(i).Type(), fmt.Sprintf("r%d", i))
		if !ok {
			return nil
		}
		rs.Results = append(rs.Results, rp)
	}
	return rs
}

var valRe = regexp.MustCompile(`\(\(?([^()]*(?:\([^()]*\))*[^()]*?)\s+((?:#x[0-9a-fA-F]+)|(?:#b[01]+)|(?:-?\d+)|(?:\(- \d+\))|true|false)\)`)

func parseSMTValue(s string) (*big.Int, bool) {
	s = strings.TrimSpace(s)
	switch {
	case s == "true":
		return big.NewInt(1), true
	case s == "false":
		return big.NewInt(0), true
	case strings.HasPrefix(s, "#x"):
		n, ok := new(big.Int).SetString(s[2:], 16)
		return n, ok
	case strings.HasPrefix(s, "#b"):
		n, ok := new(big.Int).SetString(s[2:], 2)
		return n, ok
	case strings.HasPrefix(s, "(- "):
		n, ok := new(big.Int).SetString(strings.TrimSuffix(s[3:], ")"), 10)
		if ok {
			n.Neg(n)
		}
		return n, ok
	}
	n, ok := new(big.Int).SetString(s, 10)
	return n, ok
}

// getValues asks z3 for the values of the given terms in a model of the query.
func getValues(base string, extra []string, terms []*Term) ([]*big.Int, bool) {
	if len(terms) == 0 {
		return nil, true
	}
	var sb strings.Builder
	sb.WriteString(base)
	// symbols that occur only in the terms asked for
	consts := map[string]*Sort{}
	funs := map[string]sig{}
	collectSyms(terms, consts, funs)
	for _, n := range sortedKeys(funs) {
		if strings.Contains(base, "(declare-fun "+smtSym(n)+" ") || strings.Contains(base, "(define-fun "+smtSym(n)+" ") {
			continue
		}
		var as []string
		for _, a := range funs[n].Args {
			as = append(as, a.String())
		}
		fmt.Fprintf(&sb, "(declare-fun %s (%s) %s)\n", smtSym(n), strings.Join(as, " "), funs[n].Ret)
	}
	for _, n := range sortedKeys(consts) {
		if !strings.Contains(base, "(declare-const "+smtSym(n)+" ") {
			fmt.Fprintf(&sb, "(declare-const %s %s)\n", smtSym(n), consts[n])
		}
	}
	for _, e := range extra {
		sb.WriteString(e + "\n")
	}
	sb.WriteString("(check-sat)\n")
	for _, t := range terms {
		sb.WriteString("(get-value (")
		t.write(&sb)
		sb.WriteString("))\n")
	}
	f, err := os.CreateTemp(scratch, "gv-*.smt2")
	if err != nil {
		return nil, false
	}
	f.WriteString(sb.String())
	f.Close()
	defer os.Remove(f.Name())
	ctx, cancel := context.WithTimeout(context.Background(), 20*time.Second)
	defer cancel()
	out, _ := exec.CommandContext(ctx, solverBin["z3new"], "-T:15", f.Name()).CombinedOutput()
	lines := strings.Split(strings.TrimSpace(string(out)), "\n")
	if len(lines) == 0 || strings.TrimSpace(lines[0]) != "sat" {
		if os.Getenv("GOVC_DEBUG") != "" {
			fmt.Fprintf(os.Stderr, "getValues: solver said: %s\n", strings.Join(lines, " | "))
		}
		return nil, false
	}
	text := strings.Join(lines[1:], " ")
	// each get-value prints ((term value)): parse the s-expressions and take the last element of the inner list
	var vals []*big.Int
	for _, top := range parseSexprs(text) {
		if len(top.kids) != 1 || len(top.kids[0].kids) < 2 {
			continue
		}
		pair := top.kids[0]
		v := pair.kids[len(pair.kids)-1].String()
		n, ok := parseSMTValue(v)
		if !ok {
			if os.Getenv("GOVC_DEBUG") != "" {
				fmt.Fprintf(os.Stderr, "getValues: cannot parse value %q\n", v)
			}
			return nil, false
		}
		vals = append(vals, n)
	}
	if len(vals) != len(terms) {
		if os.Getenv("GOVC_DEBUG") != "" {
			fmt.Fprintf(os.Stderr, "getValues: %d terms, %d values parsed from: %s\n", len(terms), len(vals), text)
		}
		return nil, false
	}
	return vals, true
}

type concreteVal struct {
	Kind  string
	Int   *big.Int
	Bytes []byte
}

func (x *Exec) byteTermOf(s *Term, i int64, bv bool) *Term {
	if bv {
		return App("atb", SBV(8), s, IntLit(i))
	}
	return At(s, IntLit(i))
}

// replayModel tries to confirm a sat obligation on the real code. Returns (confirmed, replay-record).
func replayModel(repo, root string, o *Obligation) (bool, map[string]interface{}) {
	rs := o.Replay
	rec := map[string]interface{}{}
	if rs == nil {
		return false, rec
	}
	base := strings.TrimSuffix(buildQuery(o, nil), "(check-sat)\n")
	if rs.ExpectPanic && o.Result != "sat" {
		if fs := o.Goal.String(); strings.Contains(fs, "forall") || strings.Contains(fs, "exists") {
			return false, rec
		}
		base = strings.TrimSuffix(buildQueryRelaxed(o), "(check-sat)\n")
		if os.Getenv("VERIF_DEBUG_RELAXED") != "" {
			os.WriteFile("/var/tmp/relaxed.smt2", []byte(base+"(check-sat)\n"), 0o644)
		}
		rec["candidate_from"] = "relaxed query (theory axioms and quantified facts dropped); confirmed only by running the real code"
	}
	bv := o.Theory == "none"
	// 1. lengths of byte-sequence parameters (minimised) and scalar parameters
	var extra []string
	var lenTerms []*Term
	for _, p := range rs.Params {
		if p.Kind == "string" || p.Kind == "bytes" {
			lenTerms = append(lenTerms, App("len", SInt, p.Term))
		}
	}
	var lens []*big.Int
	ok := false
	for _, bound := range []int{8, 32, 256, 4096} {
		var ex []string
		for _, lt := range lenTerms {
			ex = append(ex, fmt.Sprintf("(assert (and (<= 0 %s) (<= %s %d)))", lt, lt, bound))
		}
		if lens, ok = getValues(base, ex, lenTerms); ok {
			extra = ex
			break
		}
	}
	if !ok {
		rec["note"] = "no bounded model found for the inputs"
		return false, rec
	}
	for i, lt := range lenTerms {
		extra = append(extra, fmt.Sprintf("(assert (= %s %s))", lt, lens[i]))
	}
	// 2. all input values
	var terms []*Term
	li := 0
	for _, p := range rs.Params {
		switch p.Kind {
		case "string", "bytes":
			n := lens[li].Int64()
			li++
			for j := int64(0); j < n; j++ {
				terms = append(terms, (&Exec{}).byteTermOf(p.Term, j, bv))
			}
		default:
			terms = append(terms, p.Term)
		}
	}
	vals, ok := getValues(base, extra, terms)
	if !ok {
		rec["note"] = "could not read the model values"
		return false, rec
	}
	ins := []concreteVal{}
	vi, li := 0, 0
	for _, p := range rs.Params {
		switch p.Kind {
		case "string", "bytes":
			n := lens[li].Int64()
			li++
			b := make([]byte, n)
			for j := int64(0); j < n; j++ {
				b[j] = byte(vals[vi].Int64())
				extra = append(extra, fmt.Sprintf("(assert (= %s %s))", terms[vi], literalFor(terms[vi], vals[vi])))
				vi++
			}
			ins = append(ins, concreteVal{Kind: p.Kind, Bytes: b})
		default:
			extra = append(extra, fmt.Sprintf("(assert (= %s %s))", terms[vi], literalFor(terms[vi], vals[vi])))
			ins = append(ins, concreteVal{Kind: p.Kind, Int: vals[vi]})
			vi++
		}
	}
	// 3. predicted outputs under that input
	var rlen []*Term
	if rs.ExpectPanic {
		// no outputs to predict: the call must panic
		rs = &ReplaySpec{PkgDir: rs.PkgDir, PkgName: rs.PkgName, Call: rs.Call, Params: rs.Params, ExpectPanic: true}
	}
	for _, r := range rs.Results {
		if r.Kind == "string" || r.Kind == "bytes" {
			rlen = append(rlen, Len(r.Term))
		}
	}
	rl, ok := getValues(base, extra, rlen)
	if !ok {
		rec["note"] = "could not read the predicted outputs"
		return false, rec
	}
	var rterms []*Term
	li = 0
	for _, r := range rs.Results {
		switch r.Kind {
		case "string", "bytes":
			n := rl[li].Int64()
			li++
			for j := int64(0); j < n && j < 4096; j++ {
				rterms = append(rterms, (&Exec{}).byteTermOf(r.Term, j, bv))
			}
		default:
			rterms = append(rterms, r.Term)
		}
	}
	rv, ok := getValues(base, extra, rterms)
	if !ok {
		rec["note"] = "could not read the predicted outputs"
		return false, rec
	}
	var pred []string
	vi, li = 0, 0
	for _, r := range rs.Results {
		switch r.Kind {
		case "string", "bytes":
			n := rl[li].Int64()
			li++
			b := make([]byte, 0, n)
			for j := int64(0); j < n && j < 4096; j++ {
				b = append(b, byte(rv[vi].Int64()))
				vi++
			}
			pred = append(pred, fmt.Sprintf("x%x", b))
		case "bool":
			pred = append(pred, fmt.Sprint(rv[vi].Sign() != 0))
			vi++
		default:
			pred = append(pred, rv[vi].String())
			vi++
		}
	}
	// 4. run the real function
	var args []string
	var inputDesc []string
	for i, p := range rs.Params {
		c := ins[i]
		switch p.Kind {
		case "string":
			args = append(args, fmt.Sprintf("%s(%q)", p.GoType, string(c.Bytes)))
			inputDesc = append(inputDesc, fmt.Sprintf("%s=%q", p.Name, string(c.Bytes)))
		case "bytes":
			args = append(args, fmt.Sprintf("%s(%q)", p.GoType, string(c.Bytes)))
			inputDesc = append(inputDesc, fmt.Sprintf("%s=%x", p.Name, c.Bytes))
		case "bool":
			args = append(args, fmt.Sprint(c.Int.Sign() != 0))
			inputDesc = append(inputDesc, fmt.Sprintf("%s=%v", p.Name, c.Int.Sign() != 0))
		default:
			args = append(args, fmt.Sprintf("%s(%s)", p.GoType, c.Int.String()))
			inputDesc = append(inputDesc, fmt.Sprintf("%s=%s", p.Name, c.Int.String()))
		}
	}
	var outs, fmts []string
	for i, r := range rs.Results {
		outs = append(outs, fmt.Sprintf("r%d", i))
		switch r.Kind {
		case "string", "bytes":
			fmts = append(fmts, fmt.Sprintf(`fmt.Sprintf("x%%x", []byte(r%d))`, i))
		case "bool":
			fmts = append(fmts, fmt.Sprintf(`fmt.Sprint(bool(r%d))`, i))
		default:
			if strings.HasPrefix(r.GoType, "u") || strings.HasPrefix(r.GoType, "byte") {
				fmts = append(fmts, fmt.Sprintf(`fmt.Sprint(uint64(r%d))`, i))
			} else {
				fmts = append(fmts, fmt.Sprintf(`fmt.Sprint(int64(r%d))`, i))
			}
		}
	}
	src := fmt.Sprintf(`package %s

import (
	"fmt"
	"strings"
	"testing"
)

func TestVerifReplay(t *testing.T) {
	defer func() {
		if r := recover(); r != nil {
			fmt.Printf("REPLAY-PANIC %%v\n", r)
		}
	}()
	%s := %s(%s)
	fmt.Println("REPLAY-RESULT " + strings.Join([]string{%s}, " "))
}
`, rs.PkgName, strings.Join(outs, ", "), rs.Call, strings.Join(args, ", "), strings.Join(fmts, ", "))
	if len(outs) == 0 {
		src = strings.Replace(src, "\t := ", "\t", 1)
	}
	tf := filepath.Join(scratch, "replay_"+sanitize(o.Name)+"_test.go")
	os.WriteFile(tf, []byte(src), 0o644)
	dst := filepath.Join(repo, rs.PkgDir, "zz_verif_replay_test.go")
	ov, _ := json.Marshal(map[string]interface{}{"Replace": map[string]string{dst: tf}})
	of := filepath.Join(scratch, "ov_"+sanitize(o.Name)+".json")
	os.WriteFile(of, ov, 0o644)
	dir := "./" + rs.PkgDir
	if rs.PkgDir == "" {
		dir = "."
	}
	ctx, cancel := context.WithTimeout(context.Background(), 120*time.Second)
	defer cancel()
	cmd := exec.CommandContext(ctx, "go", "test", "-overlay", of, "-vet=off", "-count=1", "-timeout", "60s", "-v", "-run", "^TestVerifReplay$", dir)
	cmd.Dir = repo
	cmd.Env = append(os.Environ(), "GOFLAGS=-mod=mod", "GOPROXY=off", "GOSUMDB=off", "GOTOOLCHAIN=local")
	var buf bytes.Buffer
	cmd.Stdout, cmd.Stderr = &buf, &buf
	_ = cmd.Run()
	rec["input"] = strings.Join(inputDesc, ", ")
	rec["call"] = rs.Call + "(" + strings.Join(args, ", ") + ")"
	rec["predicted_outputs"] = pred
	rec["replay_test"] = src
	actual := ""
	for _, l := range strings.Split(buf.String(), "\n") {
		if strings.HasPrefix(l, "REPLAY-RESULT ") {
			actual = strings.TrimPrefix(l, "REPLAY-RESULT ")
		}
		if strings.HasPrefix(l, "REPLAY-PANIC ") {
			actual = l
		}
	}
	rec["actual_outputs"] = actual
	if actual == "" {
		rec["note"] = "replay did not run: " + lastLines(buf.String(), 6)
		return false, rec
	}
	if rs.ExpectPanic {
		if strings.HasPrefix(actual, "REPLAY-PANIC") {
			rec["note"] = "confirmed: the real code panics on the counterexample's input (" + actual + ")"
			return true, rec
		}
		rec["note"] = "the real code did not panic on the model's input: not confirmed"
		return false, rec
	}
	match := actual == strings.Join(pred, " ")
	if !match && bv {
		// without the byte-sequence axioms (mode bv) sequence-valued outputs are uninterpreted in the model:
		// compare the scalar outputs only
		af := strings.Fields(actual)
		if len(af) == len(pred) {
			match = true
			for i, r := range rs.Results {
				if r.Kind != "string" && r.Kind != "bytes" && af[i] != pred[i] {
					match = false
				}
			}
			if match {
				rec["compared"] = "scalar outputs only (sequence-valued outputs are uninterpreted in this theory)"
			}
		}
	}
	if match {
		rec["note"] = "confirmed: the real code returns exactly the outputs of the counterexample, which falsify the clause"
		return true, rec
	}
	rec["note"] = fmt.Sprintf("the real code's outputs (%s) differ from the model's prediction (%s): not confirmed", actual, strings.Join(pred, " "))
	return false, rec
}

func literalFor(t *Term, v *big.Int) string {
	if t.S.IsBV() {
		return fmt.Sprintf("(_ bv%s %d)", v.String(), t.S.W)
	}
	if t.S == SBool {
		return fmt.Sprint(v.Sign() != 0)
	}
	if v.Sign() < 0 {
		return "(- " + new(big.Int).Neg(v).String() + ")"
	}
	return v.String()
}

type sexpr struct {
	atom string
	kids []*sexpr
	list bool
}

func (e *sexpr) String() string {
	if !e.list {
		return e.atom
	}
	var ps []string
	for _, k := range e.kids {
		ps = append(ps, k.String())
	}
	return "(" + strings.Join(ps, " ") + ")"
}

func parseSexprs(s string) []*sexpr {
	var out []*sexpr
	var stack []*sexpr
	i := 0
	for i < len(s) {
		c := s[i]
		switch {
		case c == '(':
			stack = append(stack, &sexpr{list: true})
			i++
		case c == ')':
			if len(stack) == 0 {
				i++
				continue
			}
			top := stack[len(stack)-1]
			stack = stack[:len(stack)-1]
			if len(stack) == 0 {
				out = append(out, top)
			} else {
				p := stack[len(stack)-1]
				p.kids = append(p.kids, top)
			}
			i++
		case c == ' ' || c == '\n' || c == '\t' || c == '\r':
			i++
		case c == '|':
			j := strings.IndexByte(s[i+1:], '|')
			if j < 0 {
				return out
			}
			a := &sexpr{atom: s[i : i+j+2]}
			if len(stack) > 0 {
				p := stack[len(stack)-1]
				p.kids = append(p.kids, a)
			}
			i += j + 2
		default:
			j := i
			for j < len(s) && !strings.ContainsRune("() \n\t\r", rune(s[j])) {
				j++
			}
			a := &sexpr{atom: s[i:j]}
			if len(stack) > 0 {
				p := stack[len(stack)-1]
				p.kids = append(p.kids, a)
			}
			i = j
		}
	}
	return out
}
