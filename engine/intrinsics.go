package main

// Assumed contracts of external functions (stdlib, bytebufferpool, ...), written as executable
// models over the symbolic state. Every one used in a run is reported in the evidence under its
// assumption id.

import (
	"fmt"
	"go/types"
	"math/big"
	"strings"

	"golang.org/x/tools/go/ssa"
)

type modelField struct {
	Name string
	Sort *Sort
}

// model types: external types whose state is abstracted to ghost fields
func modelFields(t types.Type) []modelField {
	if t == nil {
		return nil
	}
	n, ok := t.(*types.Named)
	if !ok || n.Obj().Pkg() == nil {
		return nil
	}
	switch n.Obj().Pkg().Path() + "." + n.Obj().Name() {
	case "bytes.Buffer":
		return []modelField{{"unread", SBytes}}
	case "strings.Builder":
		return []modelField{{"text", SBytes}}
	case "bytes.Reader":
		return []modelField{{"unread", SBytes}}
	}
	return nil
}

func (x *Exec) freshModelValue(st *State, t types.Type, name string, input bool) Value {
	if mf := modelFields(t); mf != nil {
		sv := &StructVal{Typ: t}
		for _, f := range mf {
			sv.Fields = append(sv.Fields, Fresh(name+"."+f.Name, f.Sort))
		}
		return sv
	}
	return x.freshValue(st, t, name, input)
}

type intrinsic func(x *Exec, st *State, fr *Frame, in ssa.Instruction, callee *ssa.Function, args []Value) []Value
type ifaceIntrinsic func(x *Exec, st *State, fr *Frame, in ssa.Instruction, recv *IfaceVal, args []Value) []Value

var intrinsics = map[string]intrinsic{}
var ifaceIntrinsics = map[string]ifaceIntrinsic{}

// assumption ids with their one-line statements (reported in evidence when used)
var assumptionText = map[string]string{
	"A-LEN":    "slice/string lengths are below 2^40 and int is 64-bit, so int arithmetic on lengths is mathematical; fixed-width unsigned arithmetic is modelled exactly",
	"A-SEP":    "distinct pointer-typed inputs (and pointer fields of inputs) reference distinct objects (tree-shaped inputs)",
	"A-APPEND": "append is modelled as value-level concatenation; sharing of spare capacity between an append result and its argument is not modelled; its allocation is counted amortised (3x the appended bytes)",
	"A-BIN":    "encoding/binary: big-endian fixed-size Read/Write, Uint16/32, PutUint16/32 behave as documented; a short binary.Read leaves the target unmodified and consumes what was there",
	"A-BUF":    "bytes.Buffer (Read, ReadByte, ReadString, Next, Bytes, String, Len, Reset, Write, WriteByte, WriteString, NewBuffer), bytes.IndexByte, strings.Join/Index, hex.EncodeToString behave as documented",
	"A-POOL":   "bytebufferpool.Get returns an exclusively owned empty buffer; ByteBuffer.Write/WriteString/WriteByte append and never fail; after Put the buffer content is arbitrary",
	"A-FMT":    "fmt.Errorf/errors.New return non-nil errors and do not panic",
	"A-LOG":    "calls into the repository's logger package (other than Fatal/Panic) and fmt/log print functions do not change any value the library computes and do not panic",
	"A-ERRIS":  "errors.Is(e, io.EOF) holds iff e or the error it wraps (packetOptError.Unwrap) is io.EOF",
	"A-TABLES": "the layout tables under specs/layouts are faithful transcriptions of the protocol documents in doc/ (they are the specification)",
	"A-T0":     "the byte-sequence theory T0 (specs/theory/T0.smt2); 18 of its axioms are proved in Lean over List (Fin 256), the others are assumed",
	"A-SOLVER": "at least one of z3 4.8.12, z3 5.1.0, cvc5 1.0 is sound on each query it answers unsat",
	"A-SSA":    "go/packages + go/ssa build faithful SSA of /repo's working tree; govc's translation of the SSA subset is correct",
	"A-DET":    "a function of this library whose body has no source of nondeterminism returns a value determined by its arguments (used to name that value by an uninterpreted spec function, e.g. packimg)",
	"A-CEIL":   "int(math.Ceil(float64(n)*7/8)) equals (7n+7)/8 (integer division) for 0 <= n < 2^22 (float64 is exact there; validated by a bounded enumeration, not proved)",
	"A-TIME":   "time.Now returns some time value and does not panic",
	"A-MD5":    "crypto/md5 is a function from byte strings to 16-octet digests",
	"A-ATOI":   "time.Format(\"0102150405\") yields ten decimal digits that strconv.Atoi parses to a value below 2^32",
	"A-HEX":    "hex.EncodeToString / DecodeString are inverse on their ranges; the encoding has two digits per octet and no NUL",
}

func reg(key string, f intrinsic)       { intrinsics[key] = f }
func regI(key string, f ifaceIntrinsic) { ifaceIntrinsics[key] = f }
func one(v Value) []Value               { return []Value{v} }
func nilErr() *IfaceVal                 { return &IfaceVal{Sym: IntLit(0)} }
func (x *Exec) lenOut(t *Term) Value    { return t }

func (x *Exec) newErr(st *State, name string, eof *Term) *IfaceVal {
	e := Fresh("e."+name, SInt)
	st.Assume(Ne(e, IntLit(0)))
	st.Assume(Eq(App("errtag", SInt, e), IntLit(0)))
	if eof != nil {
		st.Assume(Eq(App("isEOFp", SBool, e), eof))
	}
	return &IfaceVal{Sym: e}
}

// condErr: an error value that is nil iff ok; when not ok it is EOF iff eofCond.
func (x *Exec) condErr(st *State, name string, ok, eofCond *Term) *IfaceVal {
	e := Fresh("e."+name, SInt)
	st.Assume(Eq(Eq(e, IntLit(0)), ok))
	if eofCond != nil {
		st.Assume(Implies(Not(ok), Eq(App("isEOFp", SBool, e), eofCond)))
	}
	st.Assume(Implies(ok, Not(App("isEOFp", SBool, e))))
	// errors produced by library calls are either nil or one of the stdlib's own values, never a sentinel of this module
	st.Assume(Or(Eq(App("errtag", SInt, e), IntLit(0)), Eq(e, x.errConst("io.EOF")), Eq(e, x.errConst("io.ErrUnexpectedEOF"))))
	return &IfaceVal{Sym: e}
}

func bufUnread(x *Exec, st *State, p *PtrVal) *Term {
	sv := x.load(st, p, nil).(*StructVal)
	return sv.Fields[0].(*Term)
}

func setBufUnread(x *Exec, st *State, p *PtrVal, t *Term) {
	x.storeRaw(st, &PtrVal{Obj: p.Obj, Path: append(append([]int(nil), p.Path...), 0), Nil: TFalse}, t)
}

func (x *Exec) needPtr(st *State, in ssa.Instruction, v Value) *PtrVal {
	p := v.(*PtrVal)
	x.safety(st, "nil", in, Not(p.Nil), "receiver not nil")
	return p
}

// byteBuffer helpers: *bytebufferpool.ByteBuffer has the real field B []byte
func bbB(x *Exec, st *State, p *PtrVal) *SliceVal {
	sv := x.load(st, p, nil).(*StructVal)
	return sv.Fields[0].(*SliceVal)
}

func bbAppend(x *Exec, st *State, p *PtrVal, add *Term) {
	b := bbB(x, st, p)
	nc := Cat(x.sliceBytes(st, b), add)
	ns := x.newByteSlice(st, nc, "bb")
	ns.Reg.Fresh = b.Reg.Fresh
	ns.Reg.FreshT = b.Reg.FreshT
	ns.Reg.Pool = true
	x.storeRaw(st, &PtrVal{Obj: p.Obj, Path: append(append([]int(nil), p.Path...), 0), Nil: TFalse}, ns)
}

func init() {
	// ---- bytes
	reg("bytes.NewBuffer", func(x *Exec, st *State, fr *Frame, in ssa.Instruction, callee *ssa.Function, args []Value) []Value {
		x.assume("A-BUF")
		s := args[0].(*SliceVal)
		o := newObj(ObjCell, callee.Signature.Results().At(0).Type().(*types.Pointer).Elem(), "buffer", true)
		st.Heap[o] = &StructVal{Typ: o.Typ, Fields: []Value{x.sliceBytes(st, s)}}
		// ghost: the buffer reads from (aliases) the caller's slice
		x.bufSrc[o] = s.Reg
		x.countAllocN(st, IntLit(40))
		return one(&PtrVal{Obj: o, Nil: TFalse})
	})
	reg("bytes.NewBufferString", func(x *Exec, st *State, fr *Frame, in ssa.Instruction, callee *ssa.Function, args []Value) []Value {
		x.assume("A-BUF")
		o := newObj(ObjCell, callee.Signature.Results().At(0).Type().(*types.Pointer).Elem(), "buffer", true)
		st.Heap[o] = &StructVal{Typ: o.Typ, Fields: []Value{args[0].(*Term)}}
		x.countAllocN(st, Add(IntLit(40), Len(args[0].(*Term))))
		return one(&PtrVal{Obj: o, Nil: TFalse})
	})
	reg("bytes.(*Buffer).Read", func(x *Exec, st *State, fr *Frame, in ssa.Instruction, callee *ssa.Function, args []Value) []Value {
		x.assume("A-BUF")
		b := x.needPtr(st, in, args[0])
		p := args[1].(*SliceVal)
		un := bufUnread(x, st, b)
		// len(p)==0: (0,nil), nothing changes. empty buffer: (0, io.EOF). otherwise n = min(len p, len unread)
		n := Ite(Eq(p.Len, IntLit(0)), IntLit(0), Min(p.Len, Len(un)))
		nT := Fresh("n.read", SInt)
		st.Assume(Eq(nT, n))
		st.Assume(And(Le(IntLit(0), nT), Le(nT, p.Len), Le(nT, Len(un))))
		ok := Or(Eq(p.Len, IntLit(0)), Gt(Len(un), IntLit(0)))
		err := x.condErr(st, "read", ok, TTrue)
		// destination receives the first n unread octets
		x.writeBytes(st, p, Take(un, nT), nT)
		nu := Fresh("unread", SBytes)
		st.Assume(Eq(nu, Drop(un, nT)))
		setBufUnread(x, st, b, nu)
		return []Value{x.lenOut(nT), err}
	})
	reg("bytes.(*Buffer).ReadString", func(x *Exec, st *State, fr *Frame, in ssa.Instruction, callee *ssa.Function, args []Value) []Value {
		x.assume("A-BUF")
		b := x.needPtr(st, in, args[0])
		d := x.toInt(args[1].(*Term))
		un := bufUnread(x, st, b)
		if !(d.Op == "int" && d.Num.Sign() == 0) {
			panic(unsupported("ReadString with a delimiter other than NUL"))
		}
		i := Idx0(un)
		found := Ge(i, IntLit(0))
		line := Fresh("line", SBytes)
		st.Assume(Eq(line, Ite(found, Take(un, Add(i, IntLit(1))), un)))
		nu := Fresh("unread", SBytes)
		st.Assume(Eq(nu, Ite(found, Drop(un, Add(i, IntLit(1))), TEps)))
		setBufUnread(x, st, b, nu)
		err := x.condErr(st, "readstring", found, TTrue)
		x.countAllocN(st, Len(line))
		return []Value{line, err}
	})
	reg("bytes.(*Buffer).Bytes", func(x *Exec, st *State, fr *Frame, in ssa.Instruction, callee *ssa.Function, args []Value) []Value {
		x.assume("A-BUF")
		b := x.needPtr(st, in, args[0])
		un := bufUnread(x, st, b)
		s := x.newByteSlice(st, un, "bufbytes")
		// aliases the buffer's backing store: not fresh, and (when built by NewBuffer) the caller's input
		s.Reg.Fresh = false
		if src, ok := x.bufSrc[b.Obj]; ok {
			s.Reg.Fresh = false
			x.aliasOf[s.Reg] = src
		}
		return one(s)
	})
	reg("bytes.(*Buffer).ReadByte", func(x *Exec, st *State, fr *Frame, in ssa.Instruction, callee *ssa.Function, args []Value) []Value {
		x.assume("A-BUF")
		b := x.needPtr(st, in, args[0])
		un := bufUnread(x, st, b)
		ok := Gt(Len(un), IntLit(0))
		err := x.condErr(st, "readbyte", ok, TTrue) // empty buffer: (0, io.EOF)
		var c *Term
		if x.bv {
			c = Ite(ok, App("atb", SBV(8), un, IntLit(0)), BVLit(big.NewInt(0), 8))
		} else {
			c = Ite(ok, At(un, IntLit(0)), IntLit(0))
		}
		nu := Fresh("unread", SBytes)
		st.Assume(Eq(nu, Ite(ok, Drop(un, IntLit(1)), un)))
		setBufUnread(x, st, b, nu)
		return []Value{c, err}
	})
	reg("bytes.(*Buffer).Next", func(x *Exec, st *State, fr *Frame, in ssa.Instruction, callee *ssa.Function, args []Value) []Value {
		x.assume("A-BUF")
		b := x.needPtr(st, in, args[0])
		n := x.toInt(args[1].(*Term))
		un := bufUnread(x, st, b)
		m := Fresh("n.next", SInt)
		st.Assume(Eq(m, Max(IntLit(0), Min(n, Len(un)))))
		s := x.newByteSlice(st, Take(un, m), "bufnext")
		// a view of the buffer's backing store (valid until the next read or write): not memory the caller of Next owns
		s.Reg.Fresh = false
		if src, ok := x.bufSrc[b.Obj]; ok {
			x.aliasOf[s.Reg] = src
		}
		nu := Fresh("unread", SBytes)
		st.Assume(Eq(nu, Drop(un, m)))
		setBufUnread(x, st, b, nu)
		return one(s)
	})
	reg("bytes.(*Buffer).String", func(x *Exec, st *State, fr *Frame, in ssa.Instruction, callee *ssa.Function, args []Value) []Value {
		x.assume("A-BUF")
		b := x.needPtr(st, in, args[0])
		un := bufUnread(x, st, b)
		x.countAllocN(st, Len(un))
		return one(un)
	})
	reg("bytes.(*Buffer).WriteByte", func(x *Exec, st *State, fr *Frame, in ssa.Instruction, callee *ssa.Function, args []Value) []Value {
		x.assume("A-BUF")
		b := x.needPtr(st, in, args[0])
		c := x.toInt(args[1].(*Term))
		setBufUnread(x, st, b, Cat(bufUnread(x, st, b), U8(c)))
		return one(nilErr())
	})
	reg("bytes.(*Buffer).Len", func(x *Exec, st *State, fr *Frame, in ssa.Instruction, callee *ssa.Function, args []Value) []Value {
		x.assume("A-BUF")
		b := x.needPtr(st, in, args[0])
		return one(x.lenOut(Len(bufUnread(x, st, b))))
	})
	reg("bytes.(*Buffer).Reset", func(x *Exec, st *State, fr *Frame, in ssa.Instruction, callee *ssa.Function, args []Value) []Value {
		x.assume("A-BUF")
		b := x.needPtr(st, in, args[0])
		setBufUnread(x, st, b, TEps)
		return nil
	})
	reg("bytes.IndexByte", func(x *Exec, st *State, fr *Frame, in ssa.Instruction, callee *ssa.Function, args []Value) []Value {
		x.assume("A-BUF")
		s := x.sliceBytes(st, args[0].(*SliceVal))
		c := x.toInt(args[1].(*Term))
		if !(c.Op == "int" && c.Num.Sign() == 0) {
			return one(x.sindexFacts(st, s, U8(c)))
		}
		return one(x.lenOut(Idx0(s)))
	})
	// ---- bytebufferpool
	reg("github.com/valyala/bytebufferpool.Get", func(x *Exec, st *State, fr *Frame, in ssa.Instruction, callee *ssa.Function, args []Value) []Value {
		x.assume("A-POOL")
		o := newObj(ObjCell, callee.Signature.Results().At(0).Type().(*types.Pointer).Elem(), "pooled", true)
		o.Pool = true
		b := x.newByteSlice(st, TEps, "pooledB")
		b.Reg.Pool = true
		st.Heap[o] = &StructVal{Typ: o.Typ, Fields: []Value{b}}
		return one(&PtrVal{Obj: o, Nil: TFalse})
	})
	reg("github.com/valyala/bytebufferpool.Put", func(x *Exec, st *State, fr *Frame, in ssa.Instruction, callee *ssa.Function, args []Value) []Value {
		x.assume("A-POOL")
		p := x.needPtr(st, in, args[0])
		// the buffer goes back to the pool: whatever still views its backing array now sees arbitrary content
		b := bbB(x, st, p)
		old := x.region(st, b.Reg)
		nv := &RegionVal{Bytes: Fresh("recycled", SBytes)}
		st.Assume(Eq(App("len", SInt, nv.Bytes), Len(old.Bytes)))
		st.Heap[b.Reg] = nv
		return nil
	})
	reg("github.com/valyala/bytebufferpool.(*ByteBuffer).Write", func(x *Exec, st *State, fr *Frame, in ssa.Instruction, callee *ssa.Function, args []Value) []Value {
		x.assume("A-POOL")
		p := x.needPtr(st, in, args[0])
		d := x.sliceBytes(st, args[1].(*SliceVal))
		bbAppend(x, st, p, d)
		return []Value{x.lenOut(Len(d)), nilErr()}
	})
	reg("github.com/valyala/bytebufferpool.(*ByteBuffer).WriteString", func(x *Exec, st *State, fr *Frame, in ssa.Instruction, callee *ssa.Function, args []Value) []Value {
		x.assume("A-POOL")
		p := x.needPtr(st, in, args[0])
		d := args[1].(*Term)
		bbAppend(x, st, p, d)
		return []Value{x.lenOut(Len(d)), nilErr()}
	})
	reg("github.com/valyala/bytebufferpool.(*ByteBuffer).WriteByte", func(x *Exec, st *State, fr *Frame, in ssa.Instruction, callee *ssa.Function, args []Value) []Value {
		x.assume("A-POOL")
		p := x.needPtr(st, in, args[0])
		bbAppend(x, st, p, U8(x.toInt(args[1].(*Term))))
		return one(nilErr())
	})
	reg("github.com/valyala/bytebufferpool.(*ByteBuffer).Len", func(x *Exec, st *State, fr *Frame, in ssa.Instruction, callee *ssa.Function, args []Value) []Value {
		x.assume("A-POOL")
		p := x.needPtr(st, in, args[0])
		return one(x.lenOut(bbB(x, st, p).Len))
	})
	reg("github.com/valyala/bytebufferpool.(*ByteBuffer).Bytes", func(x *Exec, st *State, fr *Frame, in ssa.Instruction, callee *ssa.Function, args []Value) []Value {
		x.assume("A-POOL")
		p := x.needPtr(st, in, args[0])
		return one(bbB(x, st, p))
	})
	reg("github.com/valyala/bytebufferpool.(*ByteBuffer).String", func(x *Exec, st *State, fr *Frame, in ssa.Instruction, callee *ssa.Function, args []Value) []Value {
		x.assume("A-POOL")
		p := x.needPtr(st, in, args[0])
		return one(x.sliceBytes(st, bbB(x, st, p)))
	})
	reg("github.com/valyala/bytebufferpool.(*ByteBuffer).Reset", func(x *Exec, st *State, fr *Frame, in ssa.Instruction, callee *ssa.Function, args []Value) []Value {
		x.assume("A-POOL")
		p := x.needPtr(st, in, args[0])
		b := bbB(x, st, p)
		x.storeRaw(st, &PtrVal{Obj: p.Obj, Path: append(append([]int(nil), p.Path...), 0), Nil: TFalse},
			&SliceVal{Reg: b.Reg, Off: b.Off, Len: IntLit(0), Cap: b.Cap, Nil: b.Nil, Elt: b.Elt})
		return nil
	})
	// ---- encoding/binary
	reg("encoding/binary.Write", binaryWrite)
	reg("encoding/binary.Read", binaryRead)
	for _, n := range []int{16, 32, 64} {
		n := n
		reg(fmt.Sprintf("encoding/binary.(bigEndian).Uint%d", n), func(x *Exec, st *State, fr *Frame, in ssa.Instruction, callee *ssa.Function, args []Value) []Value {
			x.assume("A-BIN")
			s := args[1].(*SliceVal)
			x.safety(st, "index", in, Ge(s.Len, IntLit(int64(n/8))), fmt.Sprintf("binary.BigEndian.Uint%d needs %d octets", n, n/8))
			r := DBE(n, x.sliceBytes(st, s))
			if x.bv {
				return one(Int2BV(r, n))
			}
			return one(r)
		})
		reg(fmt.Sprintf("encoding/binary.(bigEndian).PutUint%d", n), func(x *Exec, st *State, fr *Frame, in ssa.Instruction, callee *ssa.Function, args []Value) []Value {
			x.assume("A-BIN")
			s := args[1].(*SliceVal)
			v := x.toInt(args[2].(*Term))
			x.safety(st, "index", in, Ge(s.Len, IntLit(int64(n/8))), fmt.Sprintf("binary.BigEndian.PutUint%d needs %d octets", n, n/8))
			x.writeBytes(st, s, BE(n, v), IntLit(int64(n/8)))
			return nil
		})
	}
	// ---- errors / fmt
	reg("errors.New", func(x *Exec, st *State, fr *Frame, in ssa.Instruction, callee *ssa.Function, args []Value) []Value {
		x.assume("A-FMT")
		x.countAllocN(st, IntLit(16))
		return one(x.newErr(st, "new", TFalse))
	})
	reg("fmt.Errorf", func(x *Exec, st *State, fr *Frame, in ssa.Instruction, callee *ssa.Function, args []Value) []Value {
		x.assume("A-FMT")
		x.countAllocN(st, IntLit(64))
		// without %w the result wraps nothing, so it is not io.EOF; with %w its EOF-ness is left open
		if c, ok := in.(*ssa.Call); ok && len(c.Call.Args) > 0 {
			if k, ok := c.Call.Args[0].(*ssa.Const); ok && k.Value != nil && !strings.Contains(k.Value.ExactString(), "%w") {
				return one(x.newErr(st, "errorf", TFalse))
			}
		}
		return one(x.newErr(st, "errorf", nil))
	})
	reg("errors.Is", func(x *Exec, st *State, fr *Frame, in ssa.Instruction, callee *ssa.Function, args []Value) []Value {
		x.assume("A-ERRIS")
		tgt := args[1].(*IfaceVal)
		if tgt.Sym != nil && tgt.Sym == x.errConst("io.EOF") {
			return one(x.isEOF(st, args[0]))
		}
		e := args[0].(*IfaceVal)
		if e.Sym != nil && tgt.Sym != nil {
			r := Fresh("errors.is", SBool)
			st.Assume(Implies(Eq(e.Sym, tgt.Sym), r))
			st.Assume(Implies(Eq(e.Sym, IntLit(0)), Eq(r, Eq(tgt.Sym, IntLit(0)))))
			return one(r)
		}
		return one(Fresh("errors.is", SBool))
	})
	// ---- hex
	reg("encoding/hex.EncodeToString", func(x *Exec, st *State, fr *Frame, in ssa.Instruction, callee *ssa.Function, args []Value) []Value {
		x.assume("A-HEX")
		s := x.sliceBytes(st, args[0].(*SliceVal))
		r := App("hexenc", SBytes, s)
		st.Assume(Eq(App("len", SInt, r), Mul(IntLit(2), Len(s))))
		st.Assume(Nonul(r))
		x.countAllocN(st, Mul(IntLit(2), Len(s)))
		return one(r)
	})
	reg("time.Now", func(x *Exec, st *State, fr *Frame, in ssa.Instruction, callee *ssa.Function, args []Value) []Value {
		x.assume("A-TIME")
		return one(x.freshValue(st, callee.Signature.Results().At(0).Type(), "now", false))
	})
	reg("encoding/hex.DecodeString", func(x *Exec, st *State, fr *Frame, in ssa.Instruction, callee *ssa.Function, args []Value) []Value {
		x.assume("A-HEX")
		s := args[0].(*Term)
		// succeeds exactly on the images of EncodeToString (lower case) and of their upper-case variants; the contract
		// below only states what is needed: on success the result has half the length, and hexdec inverts hexenc
		ok := Fresh("hex.ok", SBool)
		r := App("hexdec", SBytes, s)
		st.Assume(Implies(Eq(s, App("hexenc", SBytes, r)), ok))
		st.Assume(Implies(ok, Eq(Mul(IntLit(2), App("len", SInt, r)), Len(s))))
		res := x.newByteSlice(st, Ite(ok, r, TEps), "hexdec")
		x.countAllocN(st, Len(s))
		return []Value{res, x.condErr(st, "hex", ok, TFalse)}
	})
	reg("math.Ceil", func(x *Exec, st *State, fr *Frame, in ssa.Instruction, callee *ssa.Function, args []Value) []Value {
		t := args[0].(*Term)
		// the one idiom in scope: math.Ceil(float64(n)*7/8) -> ceil(7n/8), exact for n below 2^22 (validated bounded, A-CEIL)
		if t.Op == "app" && t.Name == "float./" && isFloatLit(t.Args[1], 8) {
			m := t.Args[0]
			if m.Op == "app" && m.Name == "float.*" && isFloatLit(m.Args[1], 7) && m.Args[0].Op == "app" && m.Args[0].Name == "float.of" {
				x.assume("A-CEIL")
				return one(App("float.ceil7n8", SInt, m.Args[0].Args[0]))
			}
		}
		x.fail("math.Ceil on an expression other than float64(n)*7/8 at " + x.posOf(in))
		return one(Fresh("ceil", SInt))
	})
	reg("unicode/utf16.Encode", func(x *Exec, st *State, fr *Frame, in ssa.Instruction, callee *ssa.Function, args []Value) []Value {
		x.assume("A-BUF")
		s := args[0].(*SliceVal)
		rv := x.region(st, s.Reg)
		n := App("utf16len", SInt, rv.Arr, s.Off, s.Len)
		st.Assume(And(Le(s.Len, n), Le(n, Mul(IntLit(2), s.Len)), Le(IntLit(0), n)))
		arr := App("utf16units", SArr(SInt, SInt), rv.Arr, s.Off, s.Len)
		j := Const(fmt.Sprintf("j!q%d", x.nextQ()), SInt)
		st.Assume(Forall([]*Term{j}, And(Le(IntLit(0), Select(arr, j)), Le(Select(arr, j), IntLit(65535))), Select(arr, j)))
		reg := newObj(ObjRegion, types.Typ[types.Uint16], "utf16", true)
		st.Heap[reg] = &RegionVal{Arr: arr, Len: n}
		x.countAllocN(st, Mul(IntLit(2), n))
		return one(&SliceVal{Reg: reg, Off: IntLit(0), Len: n, Cap: n, Nil: TFalse, Elt: types.Typ[types.Uint16]})
	})
	reg("github.com/valyala/bytebufferpool.(*Pool).Get", func(x *Exec, st *State, fr *Frame, in ssa.Instruction, callee *ssa.Function, args []Value) []Value {
		return intrinsics["github.com/valyala/bytebufferpool.Get"](x, st, fr, in, callee, nil)
	})
	reg("github.com/valyala/bytebufferpool.(*Pool).Put", func(x *Exec, st *State, fr *Frame, in ssa.Instruction, callee *ssa.Function, args []Value) []Value {
		return intrinsics["github.com/valyala/bytebufferpool.Put"](x, st, fr, in, callee, args[1:])
	})
	// ---- strings
	reg("strings.Join", func(x *Exec, st *State, fr *Frame, in ssa.Instruction, callee *ssa.Function, args []Value) []Value {
		x.assume("A-BUF")
		s := args[0].(*SliceVal)
		sep := args[1].(*Term)
		if s.Len.Op == "int" && s.Len.Num.IsInt64() && s.Len.Num.Int64() <= 8 {
			rv := x.region(st, s.Reg)
			r := TEps
			n := s.Len.Num.Int64()
			for i := n - 1; i >= 0; i-- {
				e := Select(rv.Arr, Add(s.Off, IntLit(i)))
				if i < n-1 {
					r = Cat(sep, r)
				}
				r = Cat(e, r)
			}
			x.countAllocN(st, Len(r))
			return one(r)
		}
		panic(unsupported("strings.Join over a slice of symbolic length"))
	})
}

func isFloatLit(t *Term, v int64) bool {
	return t.Op == "app" && t.Name == "float.lit" && t.Args[0].Op == "int" && t.Args[0].Num.IsInt64() && t.Args[0].Num.Int64() == v
}

func dynIntBits(t types.Type) (int, bool) {
	bits, signed, ok := intInfo(t)
	if !ok || signed {
		return 0, false
	}
	return bits, true
}

// binary.Write(w, order, data): sinks *bytes.Buffer, *bytebufferpool.ByteBuffer; data an unsigned fixed-size integer
func binaryWrite(x *Exec, st *State, fr *Frame, in ssa.Instruction, callee *ssa.Function, args []Value) []Value {
	x.assume("A-BIN")
	w := args[0].(*IfaceVal)
	d := args[2].(*IfaceVal)
	if w.Dyn == nil || d.Dyn == nil {
		panic(unsupported("binary.Write with a statically unknown sink or payload"))
	}
	if o := args[1].(*IfaceVal); o.Dyn == nil || o.Dyn.String() != "encoding/binary.bigEndian" {
		panic(unsupported("binary.Write with a byte order other than BigEndian"))
	}
	bits, ok := dynIntBits(d.Dyn)
	if !ok {
		panic(unsupported("binary.Write of " + d.Dyn.String()))
	}
	v := x.toInt(d.V.(*Term))
	var enc *Term
	if bits == 8 {
		enc = U8(v)
	} else {
		enc = BE(bits, v)
	}
	p := w.V.(*PtrVal)
	x.safety(st, "nil", in, Not(p.Nil), "binary.Write sink not nil")
	switch w.Dyn.String() {
	case "*github.com/valyala/bytebufferpool.ByteBuffer":
		x.assume("A-POOL")
		bbAppend(x, st, p, enc)
	case "*bytes.Buffer":
		x.assume("A-BUF")
		un := bufUnread(x, st, p)
		setBufUnread(x, st, p, Cat(un, enc))
	default:
		panic(unsupported("binary.Write into " + w.Dyn.String()))
	}
	return one(nilErr())
}

// binary.Read(r, order, data): sources *bytes.Buffer; data a pointer to an unsigned fixed-size integer
func binaryRead(x *Exec, st *State, fr *Frame, in ssa.Instruction, callee *ssa.Function, args []Value) []Value {
	x.assume("A-BIN")
	r := args[0].(*IfaceVal)
	d := args[2].(*IfaceVal)
	if r.Dyn == nil || d.Dyn == nil {
		panic(unsupported("binary.Read with a statically unknown source or target"))
	}
	if o := args[1].(*IfaceVal); o.Dyn == nil || o.Dyn.String() != "encoding/binary.bigEndian" {
		panic(unsupported("binary.Read with a byte order other than BigEndian"))
	}
	pt, ok := d.Dyn.(*types.Pointer)
	if !ok {
		panic(unsupported("binary.Read into " + d.Dyn.String()))
	}
	bits, ok := dynIntBits(pt.Elem())
	if !ok {
		panic(unsupported("binary.Read into " + d.Dyn.String()))
	}
	if r.Dyn.String() != "*bytes.Buffer" {
		panic(unsupported("binary.Read from " + r.Dyn.String()))
	}
	x.assume("A-BUF")
	src := r.V.(*PtrVal)
	x.safety(st, "nil", in, Not(src.Nil), "binary.Read source not nil")
	dst := d.V.(*PtrVal)
	x.safety(st, "nil", in, Not(dst.Nil), "binary.Read target not nil")
	un := bufUnread(x, st, src)
	n := IntLit(int64(bits / 8))
	enough := Ge(Len(un), n)
	var dec *Term
	if bits == 8 {
		dec = At(un, IntLit(0))
	} else {
		dec = DBE(bits, Take(un, n))
	}
	old := x.toInt(x.load(st, dst, pt.Elem()).(*Term))
	nv := Fresh("rd", SInt)
	st.Assume(Eq(nv, Ite(enough, dec, old)))
	lo, hi := intRange(pt.Elem())
	st.Assume(And(Le(IntBig(lo), nv), Le(nv, IntBig(hi))))
	var stored Value = nv
	if x.bv {
		stored = Int2BV(nv, bits)
	}
	x.store(st, in, dst, stored)
	nu := Fresh("unread", SBytes)
	st.Assume(Eq(nu, Ite(enough, Drop(un, n), TEps)))
	setBufUnread(x, st, src, nu)
	err := x.condErr(st, "binread", enough, Eq(Len(un), IntLit(0)))
	return one(err)
}
