package main

// SMT term layer: sorts, hash-consed terms with light simplification, SMT-LIB printing.

import (
	"fmt"
	"math/big"
	"sort"
	"strings"
)

type Sort struct {
	Kind string // "Int" "Bool" "Bytes" "BV" "Array"
	W    int    // BV width
	Idx  *Sort  // Array index sort
	Elem *Sort  // Array element sort
}

var (
	SInt   = &Sort{Kind: "Int"}
	SBool  = &Sort{Kind: "Bool"}
	SBytes = &Sort{Kind: "Bytes"}
)

var bvSorts = map[int]*Sort{}

func SBV(w int) *Sort {
	if s, ok := bvSorts[w]; ok {
		return s
	}
	s := &Sort{Kind: "BV", W: w}
	bvSorts[w] = s
	return s
}

var arrSorts = map[string]*Sort{}

func SArr(idx, elem *Sort) *Sort {
	k := idx.String() + ">" + elem.String()
	if s, ok := arrSorts[k]; ok {
		return s
	}
	s := &Sort{Kind: "Array", Idx: idx, Elem: elem}
	arrSorts[k] = s
	return s
}

func (s *Sort) String() string {
	switch s.Kind {
	case "BV":
		return fmt.Sprintf("(_ BitVec %d)", s.W)
	case "Array":
		return "(Array " + s.Idx.String() + " " + s.Elem.String() + ")"
	}
	return s.Kind
}

func (s *Sort) IsBV() bool { return s.Kind == "BV" }

type Term struct {
	Op   string // "const" (declared symbol), "int" (literal), "bv" (literal), "true"/"false", "app:<f>", builtin ops
	Name string // for const / app
	Num  *big.Int
	Args []*Term
	S    *Sort
	key  string
	id   int // interning order: a run-to-run stable identity (addresses are not)
	// bound variable marker for quantifiers
	Bound []*Term // for forall/exists: bound vars (const terms)
	Pat   []*Term // patterns
}

var termTable = map[string]*Term{}

func mk(t *Term) *Term {
	var sb strings.Builder
	sb.WriteString(t.Op)
	sb.WriteByte('|')
	sb.WriteString(t.Name)
	sb.WriteByte('|')
	if t.Num != nil {
		sb.WriteString(t.Num.String())
	}
	sb.WriteByte('|')
	sb.WriteString(t.S.String())
	for _, a := range t.Args {
		fmt.Fprintf(&sb, ",%d", a.id)
	}
	for _, a := range t.Bound {
		fmt.Fprintf(&sb, ";%d", a.id)
	}
	for _, a := range t.Pat {
		fmt.Fprintf(&sb, "!%d", a.id)
	}
	k := sb.String()
	if e, ok := termTable[k]; ok {
		return e
	}
	t.key = k
	t.id = len(termTable) + 1
	termTable[k] = t
	return t
}

var (
	TTrue  = mk(&Term{Op: "true", S: SBool})
	TFalse = mk(&Term{Op: "false", S: SBool})
)

func Const(name string, s *Sort) *Term { return mk(&Term{Op: "const", Name: name, S: s}) }

var freshCtr = 0

func Fresh(prefix string, s *Sort) *Term {
	freshCtr++
	return Const(fmt.Sprintf("%s!%d", sanitize(prefix), freshCtr), s)
}

func sanitize(s string) string {
	var sb strings.Builder
	for _, r := range s {
		switch {
		case r >= 'a' && r <= 'z', r >= 'A' && r <= 'Z', r >= '0' && r <= '9', r == '_', r == '.', r == '!':
			sb.WriteRune(r)
		default:
			sb.WriteByte('_')
		}
	}
	if sb.Len() == 0 {
		return "v"
	}
	return sb.String()
}

func IntLit(n int64) *Term { return IntBig(big.NewInt(n)) }
func IntBig(n *big.Int) *Term {
	return mk(&Term{Op: "int", Num: new(big.Int).Set(n), S: SInt})
}
func BVLit(n *big.Int, w int) *Term {
	m := new(big.Int).Lsh(big.NewInt(1), uint(w))
	v := new(big.Int).Mod(n, m)
	return mk(&Term{Op: "bv", Num: v, S: SBV(w)})
}
func BoolLit(b bool) *Term {
	if b {
		return TTrue
	}
	return TFalse
}

func (t *Term) IsLit() bool  { return t.Op == "int" || t.Op == "bv" }
func (t *Term) IsTrue() bool { return t == TTrue }
func (t *Term) IsFalse() bool {
	return t == TFalse
}

func App(f string, s *Sort, args ...*Term) *Term {
	return mk(&Term{Op: "app", Name: f, Args: args, S: s})
}

func op(o string, s *Sort, args ...*Term) *Term { return mk(&Term{Op: o, Args: args, S: s}) }

// ---- boolean

func Not(a *Term) *Term {
	if a.IsTrue() {
		return TFalse
	}
	if a.IsFalse() {
		return TTrue
	}
	if a.Op == "not" {
		return a.Args[0]
	}
	return op("not", SBool, a)
}

func And(as ...*Term) *Term {
	var out []*Term
	seen := map[*Term]bool{}
	for _, a := range as {
		if a == nil || a.IsTrue() {
			continue
		}
		if a.IsFalse() {
			return TFalse
		}
		if a.Op == "and" {
			for _, b := range a.Args {
				if !seen[b] {
					seen[b] = true
					out = append(out, b)
				}
			}
			continue
		}
		if !seen[a] {
			seen[a] = true
			out = append(out, a)
		}
	}
	if len(out) == 0 {
		return TTrue
	}
	if len(out) == 1 {
		return out[0]
	}
	return op("and", SBool, out...)
}

func Or(as ...*Term) *Term {
	var out []*Term
	seen := map[*Term]bool{}
	for _, a := range as {
		if a == nil || a.IsFalse() {
			continue
		}
		if a.IsTrue() {
			return TTrue
		}
		if a.Op == "or" {
			for _, b := range a.Args {
				if !seen[b] {
					seen[b] = true
					out = append(out, b)
				}
			}
			continue
		}
		if !seen[a] {
			seen[a] = true
			out = append(out, a)
		}
	}
	if len(out) == 0 {
		return TFalse
	}
	if len(out) == 1 {
		return out[0]
	}
	return op("or", SBool, out...)
}

func Implies(a, b *Term) *Term {
	if a.IsTrue() {
		return b
	}
	if a.IsFalse() || b.IsTrue() {
		return TTrue
	}
	if b.IsFalse() {
		return Not(a)
	}
	return op("=>", SBool, a, b)
}

func Iff(a, b *Term) *Term { return Eq(a, b) }

func Ite(c, a, b *Term) *Term {
	if c.IsTrue() {
		return a
	}
	if c.IsFalse() {
		return b
	}
	if a == b {
		return a
	}
	if a.S == SBool {
		if a.IsTrue() && b.IsFalse() {
			return c
		}
		if a.IsFalse() && b.IsTrue() {
			return Not(c)
		}
	}
	return op("ite", a.S, c, a, b)
}

func Eq(a, b *Term) *Term {
	if a == b {
		return TTrue
	}
	if a.S != b.S {
		panic(fmt.Sprintf("Eq sort mismatch: %s : %s vs %s : %s", a, a.S, b, b.S))
	}
	if a.IsLit() && b.IsLit() {
		return BoolLit(a.Num.Cmp(b.Num) == 0)
	}
	if a.S == SBool {
		if a.IsTrue() {
			return b
		}
		if b.IsTrue() {
			return a
		}
		if a.IsFalse() {
			return Not(b)
		}
		if b.IsFalse() {
			return Not(a)
		}
	}
	if a.id > b.id {
		a, b = b, a
	}
	return op("=", SBool, a, b)
}

func Ne(a, b *Term) *Term { return Not(Eq(a, b)) }

// ---- integer arithmetic (sort Int)

func Add(as ...*Term) *Term {
	sum := new(big.Int)
	var out []*Term
	for _, a := range as {
		if a.Op == "int" {
			sum.Add(sum, a.Num)
			continue
		}
		if a.Op == "+" {
			for _, b := range a.Args {
				if b.Op == "int" {
					sum.Add(sum, b.Num)
				} else {
					out = append(out, b)
				}
			}
			continue
		}
		out = append(out, a)
	}
	// x + (y - x)  ==>  y
	for i, a := range out {
		if a.Op == "-" {
			for j, b := range out {
				if i != j && b == a.Args[1] {
					var rest []*Term
					for k, c := range out {
						if k != i && k != j {
							rest = append(rest, c)
						}
					}
					rest = append(rest, a.Args[0], IntBig(sum))
					return Add(rest...)
				}
			}
		}
	}
	if len(out) == 0 {
		return IntBig(sum)
	}
	if sum.Sign() != 0 {
		out = append(out, IntBig(sum))
	}
	if len(out) == 1 {
		return out[0]
	}
	return op("+", SInt, out...)
}

func Neg(a *Term) *Term {
	if a.Op == "int" {
		return IntBig(new(big.Int).Neg(a.Num))
	}
	return Mul(IntLit(-1), a)
}

func Sub(a, b *Term) *Term {
	if a == b {
		return IntLit(0)
	}
	// b + (a - b) style cancellations are handled in Add; here: (x - y) where x is a sum containing y
	if b.Op == "int" {
		return Add(a, IntBig(new(big.Int).Neg(b.Num)))
	}
	if a.Op == "int" && a.Num.Sign() == 0 {
		return Neg(b)
	}
	// (x + c) - x  ==> c
	if a.Op == "+" {
		var rest []*Term
		found := false
		for _, x := range a.Args {
			if x == b && !found {
				found = true
				continue
			}
			rest = append(rest, x)
		}
		if found {
			return Add(rest...)
		}
	}
	return op("-", SInt, a, b)
}

func Mul(a, b *Term) *Term {
	if a.Op == "int" && b.Op == "int" {
		return IntBig(new(big.Int).Mul(a.Num, b.Num))
	}
	if b.Op == "int" {
		a, b = b, a
	}
	if a.Op == "int" {
		if a.Num.Sign() == 0 {
			return IntLit(0)
		}
		if a.Num.Cmp(big.NewInt(1)) == 0 {
			return b
		}
	}
	return op("*", SInt, a, b)
}

// Div / Mod are SMT-LIB (floor for positive divisor) semantics.
func Div(a, b *Term) *Term {
	if a.Op == "int" && b.Op == "int" && b.Num.Sign() > 0 {
		q := new(big.Int)
		m := new(big.Int)
		q.DivMod(a.Num, b.Num, m)
		return IntBig(q)
	}
	if b.Op == "int" && b.Num.Cmp(big.NewInt(1)) == 0 {
		return a
	}
	return op("div", SInt, a, b)
}

func Mod(a, b *Term) *Term {
	if a.Op == "int" && b.Op == "int" && b.Num.Sign() > 0 {
		return IntBig(new(big.Int).Mod(a.Num, b.Num))
	}
	return op("mod", SInt, a, b)
}

func cmpLit(o string, a, b *Term) (*Term, bool) {
	if a.Op == "int" && b.Op == "int" {
		c := a.Num.Cmp(b.Num)
		switch o {
		case "<":
			return BoolLit(c < 0), true
		case "<=":
			return BoolLit(c <= 0), true
		}
	}
	return nil, false
}

func Lt(a, b *Term) *Term {
	if r, ok := cmpLit("<", a, b); ok {
		return r
	}
	if a == b {
		return TFalse
	}
	return op("<", SBool, a, b)
}
func Le(a, b *Term) *Term {
	if r, ok := cmpLit("<=", a, b); ok {
		return r
	}
	if a == b {
		return TTrue
	}
	return op("<=", SBool, a, b)
}
func Gt(a, b *Term) *Term { return Lt(b, a) }
func Ge(a, b *Term) *Term { return Le(b, a) }

func Min(a, b *Term) *Term { return Ite(Le(a, b), a, b) }
func Max(a, b *Term) *Term { return Ite(Le(a, b), b, a) }

func Pow2(n int) *Term { return IntBig(new(big.Int).Lsh(big.NewInt(1), uint(n))) }

// ---- bit-vectors

func BVOp(o string, a, b *Term) *Term {
	if a.S != b.S {
		panic(fmt.Sprintf("bv sort mismatch %s %s %s", o, a.S, b.S))
	}
	if a.Op == "bv" && b.Op == "bv" {
		w := uint(a.S.W)
		r := new(big.Int)
		ok := true
		switch o {
		case "bvadd":
			r.Add(a.Num, b.Num)
		case "bvsub":
			r.Sub(a.Num, b.Num)
		case "bvmul":
			r.Mul(a.Num, b.Num)
		case "bvand":
			r.And(a.Num, b.Num)
		case "bvor":
			r.Or(a.Num, b.Num)
		case "bvxor":
			r.Xor(a.Num, b.Num)
		case "bvshl":
			if b.Num.Cmp(big.NewInt(int64(w))) >= 0 {
				r.SetInt64(0)
			} else {
				r.Lsh(a.Num, uint(b.Num.Int64()))
			}
		case "bvlshr":
			if b.Num.Cmp(big.NewInt(int64(w))) >= 0 {
				r.SetInt64(0)
			} else {
				r.Rsh(a.Num, uint(b.Num.Int64()))
			}
		default:
			ok = false
		}
		if ok {
			return BVLit(r, int(w))
		}
	}
	return op(o, a.S, a, b)
}

func BVCmp(o string, a, b *Term) *Term {
	if a.Op == "bv" && b.Op == "bv" {
		c := a.Num.Cmp(b.Num)
		switch o {
		case "bvult":
			return BoolLit(c < 0)
		case "bvule":
			return BoolLit(c <= 0)
		}
	}
	return op(o, SBool, a, b)
}

func BVNot(a *Term) *Term { return op("bvnot", a.S, a) }

func BVExtract(hi, lo int, a *Term) *Term {
	if a.Op == "bv" {
		r := new(big.Int).Rsh(a.Num, uint(lo))
		return BVLit(r, hi-lo+1)
	}
	if lo == 0 && hi == a.S.W-1 {
		return a
	}
	return mk(&Term{Op: "extract", Name: fmt.Sprintf("%d %d", hi, lo), Args: []*Term{a}, S: SBV(hi - lo + 1)})
}

func BVZeroExt(a *Term, to int) *Term {
	if a.S.W == to {
		return a
	}
	if a.S.W > to {
		return BVExtract(to-1, 0, a)
	}
	if a.Op == "bv" {
		return BVLit(a.Num, to)
	}
	return mk(&Term{Op: "zext", Name: fmt.Sprintf("%d", to-a.S.W), Args: []*Term{a}, S: SBV(to)})
}

func BV2Int(a *Term) *Term {
	if a.Op == "bv" {
		return IntBig(a.Num)
	}
	if a.Op == "int2bv" {
		// bv2nat(int2bv(x)) = x mod 2^w
		return Mod(a.Args[0], Pow2(a.S.W))
	}
	return op("bv2nat", SInt, a)
}

func Int2BV(a *Term, w int) *Term {
	if a.Op == "int" {
		return BVLit(a.Num, w)
	}
	if a.Op == "bv2nat" && a.Args[0].S.W == w {
		return a.Args[0]
	}
	return mk(&Term{Op: "int2bv", Name: fmt.Sprintf("%d", w), Args: []*Term{a}, S: SBV(w)})
}

// ---- arrays

func Select(a, i *Term) *Term {
	// read-over-write with syntactically equal / distinct literal indices
	for a.Op == "store" {
		if a.Args[1] == i {
			return a.Args[2]
		}
		if a.Args[1].IsLit() && i.IsLit() {
			a = a.Args[0]
			continue
		}
		break
	}
	return op("select", a.S.Elem, a, i)
}

func Store(a, i, v *Term) *Term { return op("store", a.S, a, i, v) }

// ---- quantifiers

func Forall(bound []*Term, body *Term, pats ...*Term) *Term {
	if body.IsTrue() {
		return TTrue
	}
	return mk(&Term{Op: "forall", Args: []*Term{body}, Bound: bound, Pat: pats, S: SBool})
}

func Exists(bound []*Term, body *Term) *Term {
	if body.IsFalse() {
		return TFalse
	}
	return mk(&Term{Op: "exists", Args: []*Term{body}, Bound: bound, S: SBool})
}

// ---- Bytes theory constructors (uninterpreted applications + light simplification)

var TEps = Const("eps", SBytes)

func Len(a *Term) *Term {
	switch {
	case a == TEps:
		return IntLit(0)
	case a.Op == "app":
		switch a.Name {
		case "cat":
			return Add(Len(a.Args[0]), Len(a.Args[1]))
		case "u8":
			return IntLit(1)
		case "be16":
			return IntLit(2)
		case "be32":
			return IntLit(4)
		case "be64":
			return IntLit(8)
		case "zeros":
			if lo, _, ok := termBounds(a.Args[0]); ok && lo.Sign() >= 0 {
				return a.Args[0]
			}
		}
	}
	return App("len", SInt, a)
}

// Cat builds right-nested concatenations (associativity is T0 axiom 2, audited in Lean).
func Cat(a, b *Term) *Term {
	if a == TEps {
		return b
	}
	if b == TEps {
		return a
	}
	if a.Op == "app" && a.Name == "cat" {
		return Cat(a.Args[0], Cat(a.Args[1], b))
	}
	// adjacent zero blocks of literal length merge (T0: take/drop inside a zero block + take_drop; Lean: zeros_cat)
	if na, ok := zeroBlock(a); ok {
		if nb, ok := zeroBlock(b); ok {
			return Zeros(IntLit(na + nb))
		}
		if b.Op == "app" && b.Name == "cat" {
			if nb, ok := zeroBlock(b.Args[0]); ok {
				return Cat(Zeros(IntLit(na+nb)), b.Args[1])
			}
		}
	}
	return App("cat", SBytes, a, b)
}

// zeroBlock: u8(0) or zeros(n) with a literal n >= 1.
func zeroBlock(t *Term) (int64, bool) {
	if t.Op != "app" || len(t.Args) != 1 {
		return 0, false
	}
	a := t.Args[0]
	if a.Op != "int" || !a.Num.IsInt64() {
		return 0, false
	}
	switch t.Name {
	case "u8":
		if a.Num.Sign() == 0 {
			return 1, true
		}
	case "zeros":
		if n := a.Num.Int64(); n >= 1 && n < 1<<20 {
			return n, true
		}
	}
	return 0, false
}

// CatL builds left-nested concatenation without re-association (used for views built by appends).
func CatRaw(a, b *Term) *Term { return App("cat", SBytes, a, b) }

func CatN(xs ...*Term) *Term {
	r := TEps
	for i := len(xs) - 1; i >= 0; i-- {
		r = Cat(xs[i], r)
	}
	return r
}

// Take / Drop rewrite over concatenations whose first segment has a literal length and over zero blocks
// (instances of T0 item 5 and of the take/drop-beyond-first-segment rule, both audited in Lean).
func Take(a, n *Term) *Term {
	if n.Op == "int" && n.Num.Sign() <= 0 {
		return TEps
	}
	if n == Len(a) {
		return a
	}
	if n.Op == "int" {
		if a.Op == "app" && a.Name == "cat" {
			if la := Len(a.Args[0]); la.Op == "int" {
				switch c := n.Num.Cmp(la.Num); {
				case c == 0:
					return a.Args[0]
				case c < 0:
					return Take(a.Args[0], n)
				default:
					return Cat(a.Args[0], Take(a.Args[1], IntBig(new(big.Int).Sub(n.Num, la.Num))))
				}
			}
		}
		if a.Op == "app" && a.Name == "zeros" {
			if lo, _, ok := termBounds(a.Args[0]); ok && lo.Cmp(n.Num) >= 0 {
				return Zeros(n)
			}
		}
		if la := Len(a); la.Op == "int" && n.Num.Cmp(la.Num) >= 0 {
			return a
		}
	}
	return App("take", SBytes, a, n)
}
func Drop(a, n *Term) *Term {
	if n.Op == "int" && n.Num.Sign() <= 0 {
		return a
	}
	if n == Len(a) {
		return TEps
	}
	if n.Op == "int" {
		if a.Op == "app" && a.Name == "cat" {
			if la := Len(a.Args[0]); la.Op == "int" {
				switch c := n.Num.Cmp(la.Num); {
				case c == 0:
					return a.Args[1]
				case c < 0:
					return Cat(Drop(a.Args[0], n), a.Args[1])
				default:
					return Drop(a.Args[1], IntBig(new(big.Int).Sub(n.Num, la.Num)))
				}
			}
		}
		if a.Op == "app" && a.Name == "zeros" {
			if lo, _, ok := termBounds(a.Args[0]); ok && lo.Cmp(n.Num) >= 0 {
				return Zeros(Sub(a.Args[0], n))
			}
		}
		if la := Len(a); la.Op == "int" && n.Num.Cmp(la.Num) >= 0 {
			return TEps
		}
		if a.Op == "app" && a.Name == "drop" && a.Args[1].Op == "int" && a.Args[1].Num.Sign() >= 0 {
			return Drop(a.Args[0], IntBig(new(big.Int).Add(n.Num, a.Args[1].Num)))
		}
	}
	// n = x + c with x >= 0: peel leading segments of literal length <= c
	if n.Op == "+" && a.Op == "app" && a.Name == "cat" {
		last := n.Args[len(n.Args)-1]
		if last.Op == "int" && last.Num.Sign() > 0 {
			if la := Len(a.Args[0]); la.Op == "int" && la.Num.Cmp(last.Num) <= 0 {
				rest := Add(n.Args[:len(n.Args)-1]...)
				if lo, _, ok := termBounds(rest); ok && lo.Sign() >= 0 {
					return Drop(a.Args[1], Add(rest, IntBig(new(big.Int).Sub(last.Num, la.Num))))
				}
			}
		}
	}
	return App("drop", SBytes, a, n)
}
func Ext(a, lo, hi *Term) *Term {
	if lo.Op == "int" && lo.Num.Sign() == 0 {
		return Take(a, hi)
	}
	if hi == Len(a) {
		return Drop(a, lo)
	}
	return App("ext", SBytes, a, lo, hi)
}
func At(a, i *Term) *Term { return App("at", SInt, a, i) }
func U8(x *Term) *Term    { return App("u8", SBytes, x) }
func BE(n int, x *Term) *Term {
	return App(fmt.Sprintf("be%d", n), SBytes, x)
}
func DBE(n int, s *Term) *Term { return App(fmt.Sprintf("dbe%d", n), SInt, s) }
func Zeros(n *Term) *Term {
	if n.Op == "int" && n.Num.Sign() <= 0 {
		return TEps
	}
	if n.Op == "int" && n.Num.IsInt64() && n.Num.Int64() == 1 {
		return U8(IntLit(0)) // one normal form for a single zero octet
	}
	return App("zeros", SBytes, n)
}
func Idx0(s *Term) *Term  { return App("idx0", SInt, s) }
func Nonul(s *Term) *Term { return Eq(Idx0(s), IntLit(-1)) }
func Fixed(s, n *Term) *Term {
	return Cat(s, Zeros(Sub(n, Len(s))))
}
func CStr(s *Term) *Term { return Cat(s, U8(IntLit(0))) }
func Trim(t *Term) *Term { return App("trim", SBytes, t) }

// ---- printing

func (t *Term) String() string {
	var sb strings.Builder
	t.write(&sb)
	return sb.String()
}

func smtSym(name string) string {
	for _, r := range name {
		if !(r >= 'a' && r <= 'z' || r >= 'A' && r <= 'Z' || r >= '0' && r <= '9' || r == '_' || r == '.' || r == '!' || r == '$') {
			return "|" + name + "|"
		}
	}
	return name
}

func (t *Term) write(sb *strings.Builder) {
	switch t.Op {
	case "const":
		sb.WriteString(smtSym(t.Name))
	case "int":
		if t.Num.Sign() < 0 {
			sb.WriteString("(- ")
			sb.WriteString(new(big.Int).Neg(t.Num).String())
			sb.WriteString(")")
		} else {
			sb.WriteString(t.Num.String())
		}
	case "bv":
		fmt.Fprintf(sb, "(_ bv%s %d)", t.Num.String(), t.S.W)
	case "true", "false":
		sb.WriteString(t.Op)
	case "app":
		if len(t.Args) == 0 {
			sb.WriteString(smtSym(t.Name))
			return
		}
		sb.WriteString("(")
		sb.WriteString(smtSym(t.Name))
		for _, a := range t.Args {
			sb.WriteByte(' ')
			a.write(sb)
		}
		sb.WriteString(")")
	case "constarr":
		fmt.Fprintf(sb, "((as const %s) %s)", t.S, t.Name)
	case "extract":
		fmt.Fprintf(sb, "((_ extract %s) ", t.Name)
		t.Args[0].write(sb)
		sb.WriteString(")")
	case "zext":
		fmt.Fprintf(sb, "((_ zero_extend %s) ", t.Name)
		t.Args[0].write(sb)
		sb.WriteString(")")
	case "int2bv":
		fmt.Fprintf(sb, "((_ int2bv %s) ", t.Name)
		t.Args[0].write(sb)
		sb.WriteString(")")
	case "forall", "exists":
		sb.WriteString("(" + t.Op + " (")
		for _, b := range t.Bound {
			fmt.Fprintf(sb, "(%s %s)", smtSym(b.Name), b.S)
		}
		sb.WriteString(") ")
		if len(t.Pat) > 0 {
			sb.WriteString("(! ")
		}
		t.Args[0].write(sb)
		if len(t.Pat) > 0 {
			for _, p := range t.Pat {
				sb.WriteString(" :pattern (")
				p.write(sb)
				sb.WriteString(")")
			}
			sb.WriteString(")")
		}
		sb.WriteString(")")
	default:
		sb.WriteString("(")
		sb.WriteString(t.Op)
		for _, a := range t.Args {
			sb.WriteByte(' ')
			a.write(sb)
		}
		sb.WriteString(")")
	}
}

// collectConsts gathers free constants and uninterpreted applications' signatures.
type sig struct {
	Name string
	Args []*Sort
	Ret  *Sort
}

func collectSyms(ts []*Term, consts map[string]*Sort, funs map[string]sig) {
	seen := map[*Term]bool{}
	var walk func(t *Term, bound map[string]bool)
	walk = func(t *Term, bound map[string]bool) {
		if len(bound) == 0 {
			if seen[t] {
				return
			}
			seen[t] = true
		}
		switch t.Op {
		case "const":
			if !bound[t.Name] {
				consts[t.Name] = t.S
			}
		case "app":
			var as []*Sort
			for _, a := range t.Args {
				as = append(as, a.S)
			}
			funs[t.Name] = sig{t.Name, as, t.S}
		case "forall", "exists":
			nb := map[string]bool{}
			for k := range bound {
				nb[k] = true
			}
			for _, b := range t.Bound {
				nb[b.Name] = true
			}
			walk(t.Args[0], nb)
			for _, p := range t.Pat {
				walk(p, nb)
			}
			return
		}
		for _, a := range t.Args {
			walk(a, bound)
		}
	}
	for _, t := range ts {
		walk(t, nil)
	}
}

func sortedKeys[V any](m map[string]V) []string {
	ks := make([]string, 0, len(m))
	for k := range m {
		ks = append(ks, k)
	}
	sort.Strings(ks)
	return ks
}

// subst replaces constants by terms (used for instantiating bound variables / lemma schemas).
func subst(t *Term, m map[*Term]*Term) *Term {
	cache := map[*Term]*Term{}
	var rec func(t *Term) *Term
	rec = func(t *Term) *Term {
		if r, ok := m[t]; ok {
			return r
		}
		if len(t.Args) == 0 {
			return t
		}
		if r, ok := cache[t]; ok {
			return r
		}
		args := make([]*Term, len(t.Args))
		changed := false
		for i, a := range t.Args {
			args[i] = rec(a)
			if args[i] != a {
				changed = true
			}
		}
		var pats []*Term
		for _, p := range t.Pat {
			q := rec(p)
			if q != p {
				changed = true
			}
			pats = append(pats, q)
		}
		r := t
		if changed {
			r = rebuild(t, args, pats)
		}
		cache[t] = r
		return r
	}
	return rec(t)
}

func rebuild(t *Term, args []*Term, pats []*Term) *Term {
	switch t.Op {
	case "and":
		return And(args...)
	case "or":
		return Or(args...)
	case "not":
		return Not(args[0])
	case "=>":
		return Implies(args[0], args[1])
	case "=":
		return Eq(args[0], args[1])
	case "ite":
		return Ite(args[0], args[1], args[2])
	case "+":
		return Add(args...)
	case "-":
		return Sub(args[0], args[1])
	case "*":
		return Mul(args[0], args[1])
	case "div":
		return Div(args[0], args[1])
	case "mod":
		return Mod(args[0], args[1])
	case "<":
		return Lt(args[0], args[1])
	case "<=":
		return Le(args[0], args[1])
	case "select":
		return Select(args[0], args[1])
	case "app":
		switch t.Name {
		case "cat":
			return Cat(args[0], args[1])
		case "len":
			return Len(args[0])
		case "take":
			return Take(args[0], args[1])
		case "drop":
			return Drop(args[0], args[1])
		case "ext":
			return Ext(args[0], args[1], args[2])
		case "zeros":
			return Zeros(args[0])
		}
	}
	return mk(&Term{Op: t.Op, Name: t.Name, Num: t.Num, Args: args, S: t.S, Bound: t.Bound, Pat: pats})
}
