package main

// Calls (contracts, inlining, builtins), loops (cut at header with invariants), function driver.

import (
	"fmt"
	"go/types"
	"sort"
	"strings"

	"golang.org/x/tools/go/ssa"
)

func (x *Exec) doCall(st *State, fr *Frame, in ssa.Instruction, c *ssa.CallCommon, k cont) {
	var args []Value
	for _, a := range c.Args {
		args = append(args, x.val(st, fr, a))
	}
	var fv Value
	if c.IsInvoke() {
		fv = x.val(st, fr, c.Value)
	} else {
		switch c.Value.(type) {
		case *ssa.Function, *ssa.Builtin:
		default:
			fv = x.val(st, fr, c.Value)
		}
	}
	x.doCallVals(st, fr, in, c, fv, args, k)
}

func (x *Exec) doCallVals(st *State, fr *Frame, in ssa.Instruction, c *ssa.CallCommon, fv Value, args []Value, k cont) {
	if c.IsInvoke() {
		iv, ok := fv.(*IfaceVal)
		if !ok {
			panic(unsupported(fmt.Sprintf("invoke on %T", fv)))
		}
		if iv.Dyn != nil {
			ms := x.W.Prog.MethodSets.MethodSet(iv.Dyn)
			sel := ms.Lookup(c.Method.Pkg(), c.Method.Name())
			if sel == nil {
				panic(unsupported("method " + c.Method.Name() + " not found on " + iv.Dyn.String()))
			}
			callee := x.W.Prog.MethodValue(sel)
			x.callFunc(st, fr, in, callee, append([]Value{iv.V}, args...), nil, k)
			return
		}
		x.safety(st, "nil", in, Not(x.ifaceIsNil(iv)), "interface not nil at method call")
		x.invokeSymbolic(st, fr, in, c, iv, args, k)
		return
	}
	switch f := c.Value.(type) {
	case *ssa.Builtin:
		if f.Name() == "append" && len(args) == 2 {
			if x.appendInPlace(st, args, k) {
				return
			}
		}
		k(st, x.builtin(st, fr, in, f, c, args))
		return
	case *ssa.Function:
		x.callFunc(st, fr, in, f, args, nil, k)
		return
	}
	if f, ok := fv.(*FuncVal); ok && f.Fn != nil {
		if sf, ok := f.Fn.(*ssa.Function); ok {
			x.callFunc(st, fr, in, sf, args, f.Bind, k)
			return
		}
	}
	if f, ok := fv.(*FuncVal); ok && f.Sym != nil {
		// call through a function value that is not known statically: dispatch over the repository's top-level functions of
		// exactly this signature; that the value is one of them is an obligation here
		var cands []*ssa.Function
		for _, p := range x.W.SSAPkg {
			for _, m := range p.Members {
				if fn, ok := m.(*ssa.Function); ok && fn.Blocks != nil && fn.Signature.Recv() == nil && types.Identical(fn.Signature, c.Signature()) {
					cands = append(cands, fn)
				}
			}
		}
		sort.Slice(cands, func(i, j int) bool { return funcKey(cands[i]) < funcKey(cands[j]) })
		if len(cands) > 0 && len(cands) <= 8 {
			var any []*Term
			for _, fn := range cands {
				any = append(any, Eq(f.Sym, x.funcID(fn)))
			}
			x.safety(st, "funcvalue", in, Or(any...), fmt.Sprintf("the function value called is one of the repository's %d functions of this signature", len(cands)))
			for i, fn := range cands {
				st2 := st.Clone()
				st2.Assume(any[i])
				x.callFunc(st2, fr, in, fn, args, nil, k)
			}
			return
		}
	}
	panic(unsupported("dynamic call through " + c.Value.Name() + " at " + x.posOf(in)))
}

func (x *Exec) callFunc(st *State, fr *Frame, in ssa.Instruction, callee *ssa.Function, args []Value, bind []Value, k cont) {
	key := funcKey(callee)
	// synthetic wrappers (promoted methods, pointer wrappers): inline them
	if callee.Synthetic != "" && callee.Blocks != nil && !strings.HasPrefix(callee.Synthetic, "instance of") && !strings.HasPrefix(callee.Synthetic, "package initializer") {
		x.inline(st, fr, in, callee, args, bind, k)
		return
	}
	if intr, ok := intrinsics[key]; ok {
		res := intr(x, st, fr, in, callee, args)
		k(st, res)
		return
	}
	if isLoggingCall(callee) {
		// logging has no effect on the values this library computes (A-LOG); results, if any, are arbitrary
		x.assume("A-LOG")
		var res []Value
		rs := callee.Signature.Results()
		for i := 0; i < rs.Len(); i++ {
			res = append(res, x.freshValue(st, rs.At(i).Type(), "log."+callee.Name(), false))
		}
		k(st, res)
		return
	}
	if spec, ok := x.W.Specs[key]; ok && !spec.Inline && callee != x.fn {
		x.callContract(st, fr, in, callee, spec, args, k)
		return
	}
	if spec, ok := x.W.Specs[key]; ok && callee == x.fn && len(x.inl) > 0 {
		_ = spec
		panic(unsupported("recursion into " + key))
	}
	if x.W.isRepoFunc(callee) || callee.Parent() != nil || (callee.Origin() != nil) {
		if callee.Blocks == nil {
			panic(unsupported("no body for " + key))
		}
		x.inline(st, fr, in, callee, args, bind, k)
		return
	}
	x.fail(fmt.Sprintf("call of external function %s without a model at %s", key, x.posOf(in)))
	// opaque result; obligations will not be claimed for this function
	var res []Value
	rs := callee.Signature.Results()
	for i := 0; i < rs.Len(); i++ {
		res = append(res, x.freshValue(st, rs.At(i).Type(), "ext."+callee.Name(), false))
	}
	k(st, res)
}

func (x *Exec) inline(st *State, fr *Frame, in ssa.Instruction, callee *ssa.Function, args []Value, bind []Value, k cont) {
	if len(x.inl) > 12 {
		panic(unsupported("inlining too deep at " + funcKey(callee)))
	}
	nf := x.newFrame(callee)
	for i, p := range callee.Params {
		if i < len(args) {
			nf.Regs[p] = args[i]
		}
	}
	for i, fvr := range callee.FreeVars {
		if i < len(bind) {
			nf.Regs[fvr] = bind[i]
		}
	}
	ord := 0
	if in != nil {
		ord = x.ordinalOf(in.Parent(), "call", in)
	}
	x.inl = append(x.inl, fmt.Sprintf("%s/%d", callee.Name(), ord))
	saved := append([]string(nil), x.inl...)
	x.execBlock(st, nf, callee.Blocks[0], nil, nil, func(st2 *State, res []Value) {
		cur := x.inl
		x.inl = saved[:len(saved)-1]
		k(st2, res)
		x.inl = cur
	})
	x.inl = saved[:len(saved)-1]
}

// ---------- contract call

func (x *Exec) callEnv(st *State, callee *ssa.Function, args []Value) *CEnv {
	env := &CEnv{x: x, st: st, vars: map[string]Value{}, pkg: pkgPathOf(callee)}
	for i, p := range callee.Params {
		if i < len(args) {
			env.vars[p.Name()] = args[i]
		}
	}
	x.W.aliasOld(callee, env.vars)
	return env
}

func pkgPathOf(fn *ssa.Function) string {
	if fn.Pkg != nil {
		return fn.Pkg.Pkg.Path()
	}
	if fn.Parent() != nil {
		return pkgPathOf(fn.Parent())
	}
	if o := fn.Origin(); o != nil {
		return pkgPathOf(o)
	}
	return ""
}

func bindResults(env *CEnv, callee *ssa.Function, res []Value) {
	rs := callee.Signature.Results()
	for i := 0; i < rs.Len(); i++ {
		env.vars[fmt.Sprintf("result%d", i)] = res[i]
		if n := rs.At(i).Name(); n != "" && n != "_" {
			env.vars[n] = res[i]
		}
		if isErrorT(rs.At(i).Type()) {
			if _, ok := env.vars["err"]; !ok {
				env.vars["err"] = res[i]
			}
		}
	}
	if rs.Len() >= 1 {
		env.vars["result"] = res[0]
	}
}

func (x *Exec) callContract(st *State, fr *Frame, in ssa.Instruction, callee *ssa.Function, spec *FuncSpec, args []Value, k cont) {
	name := shortKey(funcKey(callee))
	x.callees[spec.Key] = true
	env := x.callEnv(st, callee, args)
	def := spec.Behaviors[0]
	// preconditions
	for i, c := range def.Requires {
		t, err := env.evalBool(c.E)
		if err != nil {
			x.fail(fmt.Sprintf("precondition of %s: %v", name, err))
			continue
		}
		oname := x.instrName("pre", in) + fmt.Sprintf(".%s.requires[%d]", name, i)
		x.oblige(st, "pre", oname, x.safetyProps(), t, "precondition of "+name+": "+c.Text, x.posOf(in))
		st.Assume(t)
	}
	pre := st.Clone()
	// frame: havoc what the callee may modify
	for _, m := range spec.modifiesList() {
		x.havocLoc(st, env, m)
	}
	// results
	var res []Value
	rs := callee.Signature.Results()
	for i := 0; i < rs.Len(); i++ {
		res = append(res, x.freshValue(st, rs.At(i).Type(), "r."+callee.Name(), false))
	}
	post := &CEnv{x: x, st: st, old: pre, vars: env.vars, pkg: env.pkg}
	post = post.clone()
	bindResults(post, callee, res)
	x.W.aliasOld(callee, post.vars)
	// the enumeration order of a map range inside the callee is some permutation unknown to the caller
	post.vars["rangeord"] = Fresh("ord."+callee.Name(), SArr(SInt, SInt))
	for _, b := range spec.Behaviors {
		penvVars := env.vars
		postB := post
		if len(b.Ghost) > 0 {
			// ghost parameters: usable only when the caller passes ghost arguments
			// (`option ghost.<callee>.<name> = <expr>` in the caller's contract, evaluated in the caller's pre-state)
			bound, ok := x.ghostArgs(pre, callee, b)
			if !ok {
				continue
			}
			penvVars = map[string]Value{}
			for k, v := range env.vars {
				penvVars[k] = v
			}
			postB = post.clone()
			for k, v := range bound {
				penvVars[k] = v
				postB.vars[k] = v
			}
		}
		var guard []*Term
		if b != def {
			okB := true
			penv := &CEnv{x: x, st: pre, vars: penvVars, pkg: env.pkg}
			for _, c := range b.Requires {
				t, err := penv.evalBool(c.E)
				if err != nil {
					okB = false
					break
				}
				guard = append(guard, t)
			}
			if !okB {
				continue
			}
		}
		for _, c := range b.Ensures {
			t, err := postB.evalBool(c.E)
			if err != nil {
				if spec.Mode != x.spec.Mode || spec.Options["repr"] != x.spec.Options["repr"] {
					continue // clause written for another integer/array representation: not usable here (fewer assumptions is sound)
				}
				x.fail(fmt.Sprintf("postcondition of %s: %v", name, err))
				continue
			}
			if c.Abstract {
				x.assume("A-DET")
			}
			st.Assume(Implies(And(guard...), t))
		}
	}
	if spec.Options["alloc"] != "" {
		if ae, err := ParseCExpr(spec.Options["alloc"]); err == nil {
			penv := &CEnv{x: x, st: pre, vars: env.vars, pkg: env.pkg}
			if t, err := penv.evalTerm(ae); err == nil {
				x.countAllocN(st, t)
			}
		}
	}
	if spec.Trusted {
		x.assume("trusted contract: " + name)
	}
	k(st, res)
}

func (fs *FuncSpec) modifiesList() []*CExpr {
	var out []*CExpr
	if m, ok := fs.Options["modifies"]; ok {
		for _, part := range splitTop(m) {
			if e, err := ParseCExpr(part); err == nil {
				out = append(out, e)
			}
		}
	}
	return out
}

func splitTop(s string) []string {
	var out []string
	d := 0
	last := 0
	for i, c := range s {
		switch c {
		case '(', '[':
			d++
		case ')', ']':
			d--
		case ',':
			if d == 0 {
				out = append(out, strings.TrimSpace(s[last:i]))
				last = i + 1
			}
		}
	}
	if strings.TrimSpace(s[last:]) != "" {
		out = append(out, strings.TrimSpace(s[last:]))
	}
	return out
}

// havocLoc havocs the location denoted by a modifies expression: a field path (p.f.g), *p, mem(s).
func (x *Exec) havocLoc(st *State, env *CEnv, e *CExpr) {
	defer func() {
		if r := recover(); r != nil {
			if ce, ok := r.(cevalErr); ok {
				x.fail("modifies " + e.String() + ": " + ce.msg)
				return
			}
			panic(r)
		}
	}()
	env = env.withState(st)
	switch e.Kind {
	case "call":
		if e.Args[0].Kind == "ident" && e.Args[0].Name == "mem" {
			v := env.deref(env.eval(e.Args[1]))
			switch s := v.(type) {
			case *SliceVal:
				old := x.region(st, s.Reg)
				nv := x.freshRegion(st, s.Reg.Typ, s.Reg.Name+"'")
				if old.Bytes != nil {
					st.Assume(Eq(App("len", SInt, nv.Bytes), Len(old.Bytes)))
				} else {
					nv.Len = old.Len
				}
				st.Heap[s.Reg] = nv
			case *MapVal:
				mt := under(s.Obj.Typ).(*types.Map)
				nm := x.freshMapContent(st, mt, s.Obj.Name+"'")
				nm.Nil = x.mapC(st, s.Obj).Nil
				st.Heap[s.Obj] = nm
			default:
				cfail("mem() of %T", v)
			}
			return
		}
	case "field":
		base := env.eval(e.Args[0])
		p, ok := base.(*PtrVal)
		if !ok {
			cfail("modifies through non-pointer %T", base)
		}
		if p.Obj == nil {
			return
		}
		cur := x.load(st, p, nil)
		sv, ok := cur.(*StructVal)
		if !ok {
			cfail("modifies field of non-struct")
		}
		idx, ft := fieldIndex(sv.Typ, e.Name)
		if idx < 0 {
			cfail("no field %s", e.Name)
		}
		nv := x.freshValueOfField(st, ft, p.Obj.Name+"."+e.Name, sv, idx)
		x.storeRaw(st, &PtrVal{Obj: p.Obj, Path: append(append([]int(nil), p.Path...), idx), Nil: TFalse}, nv)
		return
	case "un":
	}
	if e.Kind == "ident" || e.Kind == "index" {
		// whole pointee of a pointer variable
		v := env.eval(e)
		if p, ok := v.(*PtrVal); ok && p.Obj != nil {
			t := p.Obj.Typ
			if len(p.Path) > 0 {
				t = pathType(t, p.Path)
			}
			x.storeRaw(st, p, x.freshModelValue(st, t, p.Obj.Name+"'", false))
			return
		}
	}
	cfail("unsupported modifies target")
}

func (x *Exec) freshValueOfField(st *State, ft types.Type, name string, sv *StructVal, idx int) Value {
	if mf := modelFields(sv.Typ); mf != nil {
		return Fresh(name, mf[idx].Sort)
	}
	return x.freshValue(st, ft, name, false)
}

func (x *Exec) storeRaw(st *State, p *PtrVal, v Value) {
	cur := x.cellValue(st, p.Obj)
	st.Heap[p.Obj] = setPath(cur, p.Path, v)
}

func fieldIndex(t types.Type, name string) (int, types.Type) {
	if mf := modelFields(t); mf != nil {
		for i, f := range mf {
			if f.Name == name {
				return i, nil
			}
		}
		return -1, nil
	}
	st, ok := under(t).(*types.Struct)
	if !ok {
		return -1, nil
	}
	for i := 0; i < st.NumFields(); i++ {
		if st.Field(i).Name() == name {
			return i, st.Field(i).Type()
		}
	}
	return -1, nil
}

// ---------- symbolic interface invocation

func (x *Exec) invokeSymbolic(st *State, fr *Frame, in ssa.Instruction, c *ssa.CallCommon, iv *IfaceVal, args []Value, k cont) {
	key := ""
	if n, ok := c.Value.Type().(*types.Named); ok && n.Obj().Pkg() != nil {
		key = n.Obj().Pkg().Path() + "." + n.Obj().Name() + "." + c.Method.Name()
	} else {
		key = c.Value.Type().String() + "." + c.Method.Name()
	}
	if intr, ok := ifaceIntrinsics[key]; ok {
		k(st, intr(x, st, fr, in, iv, args))
		return
	}
	if x.invokeDispatch(st, fr, in, c, iv, args, k) {
		return
	}
	x.fail(fmt.Sprintf("interface method %s without a contract at %s", key, x.posOf(in)))
	var res []Value
	rs := c.Signature().Results()
	for i := 0; i < rs.Len(); i++ {
		res = append(res, x.freshValue(st, rs.At(i).Type(), "inv."+c.Method.Name(), false))
	}
	k(st, res)
}

// ---------- builtins

func (x *Exec) builtin(st *State, fr *Frame, in ssa.Instruction, b *ssa.Builtin, c *ssa.CallCommon, args []Value) []Value {
	ret := func(v Value) []Value { return []Value{v} }
	lenTerm := func(t *Term) Value { return t }
	switch b.Name() {
	case "len":
		switch a := args[0].(type) {
		case *Term:
			return ret(lenTerm(Len(a)))
		case *SliceVal:
			return ret(lenTerm(a.Len))
		case *MapVal:
			return ret(lenTerm(x.mapC(st, a.Obj).Card))
		case *ArrVal:
			return ret(lenTerm(IntLit(a.Typ.Len())))
		case *PtrVal:
			if arr, ok := under(a.Obj.Typ).(*types.Array); ok {
				return ret(lenTerm(IntLit(arr.Len())))
			}
		}
	case "cap":
		if a, ok := args[0].(*SliceVal); ok {
			return ret(lenTerm(a.Cap))
		}
	case "append":
		return ret(x.appendOp(st, in, c, args))
	case "copy":
		dst := args[0].(*SliceVal)
		var src *Term
		switch s := args[1].(type) {
		case *SliceVal:
			if !isByte(s.Elt) {
				panic(unsupported("copy of non-byte slices"))
			}
			src = x.sliceBytes(st, s)
		case *Term:
			src = s
		}
		if !isByte(dst.Elt) {
			panic(unsupported("copy of non-byte slices"))
		}
		n := Min(dst.Len, Len(src))
		x.writeBytes(st, dst, Take(src, n), n)
		return ret(lenTerm(n))
	case "delete":
		m := args[0].(*MapVal)
		mc := x.mapC(st, m.Obj)
		kt := args[1].(*Term)
		nm := *mc
		had := Select(mc.Dom, kt)
		nm.Dom = Store(mc.Dom, kt, TFalse)
		nm.Card = Sub(mc.Card, Ite(had, IntLit(1), IntLit(0)))
		st.Heap[m.Obj] = &nm
		return nil
	case "print", "println":
		return nil
	case "min", "max":
		a, bt := args[0].(*Term), args[1].(*Term)
		if a.S == SInt {
			if b.Name() == "min" {
				return ret(Min(a, bt))
			}
			return ret(Max(a, bt))
		}
	}
	panic(unsupported("builtin " + b.Name()))
}

// writeBytes overwrites the first n octets viewed by dst with content (len(content) == n).
func (x *Exec) writeBytes(st *State, dst *SliceVal, content, n *Term) {
	rv := x.region(st, dst.Reg)
	if rv.Bytes == nil {
		panic(unsupported("byte write into array-represented region"))
	}
	var nb *Term
	if dst.Off.Op == "int" && dst.Off.Num.Sign() == 0 {
		nb = Cat(content, Drop(rv.Bytes, n))
	} else {
		nb = CatN(Take(rv.Bytes, dst.Off), content, Drop(rv.Bytes, Add(dst.Off, n)))
	}
	if termSize(nb, 400) < 400 {
		// keep the structured term: later reads simplify syntactically
		if Len(nb) != Len(rv.Bytes) {
			st.Assume(Eq(Len(nb), Len(rv.Bytes)))
		}
		st.Heap[dst.Reg] = &RegionVal{Bytes: nb}
		return
	}
	c := Fresh(dst.Reg.Name+"w", SBytes)
	st.Assume(Eq(c, nb))
	st.Assume(Eq(App("len", SInt, c), Len(rv.Bytes)))
	st.Heap[dst.Reg] = &RegionVal{Bytes: c}
}

func termSize(t *Term, cap int) int {
	n := 1
	for _, a := range t.Args {
		if n >= cap {
			return n
		}
		n += termSize(a, cap-n)
	}
	return n
}

// appendInPlace: append to a view of memory that is definitely not this call's own (a list the caller's object brought).
// Go writes the new elements into that memory when the capacity suffices and allocates otherwise; the two cases are
// explored separately so that the first is seen as a write into the caller's backing array.
func (x *Exec) appendInPlace(st *State, args []Value, k cont) bool {
	base, ok := args[0].(*SliceVal)
	if !ok {
		return false
	}
	if _, ok := x.keepable(st, base); !ok {
		return false
	}
	src, ok := args[1].(*SliceVal)
	if !ok || !(src.Len.Op == "int" && src.Len.Num.IsInt64() && src.Len.Num.Int64() >= 1 && src.Len.Num.Int64() <= 8) {
		return false
	}
	rs := x.region(st, src.Reg)
	if rs.Arr == nil {
		return false
	}
	x.assume("A-APPEND")
	n := Add(base.Len, src.Len)
	fits := Le(n, base.Cap)
	// in place
	x.paths++
	st2 := st.Clone()
	st2.Assume(fits)
	rb := x.region(st2, base.Reg)
	arr := rb.Arr
	for i := int64(0); i < src.Len.Num.Int64(); i++ {
		arr = Store(arr, Add(Add(base.Off, base.Len), IntLit(i)), Select(rs.Arr, Add(src.Off, IntLit(i))))
	}
	st2.Heap[base.Reg] = &RegionVal{Arr: arr, Len: rb.Len}
	k(st2, []Value{&SliceVal{Reg: base.Reg, Off: base.Off, Len: n, Cap: base.Cap, Nil: TFalse, Elt: base.Elt}})
	// reallocated
	x.curPath++
	st.Assume(Not(fits))
	rb = x.region(st, base.Reg)
	arr = Fresh("app", rb.Arr.S)
	j := Const(fmt.Sprintf("j!q%d", x.nextQ()), SInt)
	st.Assume(Forall([]*Term{j}, Implies(And(Le(IntLit(0), j), Lt(j, base.Len)), Eq(Select(arr, j), Select(rb.Arr, Add(base.Off, j)))), Select(arr, j)))
	for i := int64(0); i < src.Len.Num.Int64(); i++ {
		arr = Store(arr, Add(base.Len, IntLit(i)), Select(rs.Arr, Add(src.Off, IntLit(i))))
	}
	esz := types.SizesFor("gc", "amd64").Sizeof(base.Elt)
	x.countAllocN(st, Mul(IntLit(3*esz), src.Len))
	reg := newObj(ObjRegion, base.Elt, "app", true)
	cp := Fresh("app.cap", SInt)
	st.Assume(Ge(cp, n))
	st.Heap[reg] = &RegionVal{Arr: arr, Len: n}
	k(st, []Value{&SliceVal{Reg: reg, Off: IntLit(0), Len: n, Cap: cp, Nil: TFalse, Elt: base.Elt}})
	return true
}

func (x *Exec) appendOp(st *State, in ssa.Instruction, c *ssa.CallCommon, args []Value) Value {
	base := args[0].(*SliceVal)
	elt := base.Elt
	if isByte(elt) && !x.arr {
		var add *Term
		switch s := args[1].(type) {
		case *SliceVal:
			add = x.sliceBytes(st, s)
		case *Term:
			add = s // append([]byte, string...)
		}
		x.assume("A-APPEND")
		nc := Cat(x.sliceBytes(st, base), add)
		x.countAllocN(st, Mul(IntLit(3), Len(add))) // amortised growth (A-APPEND)
		r := x.newByteSlice(st, nc, "app")
		r.Nil = And(base.Nil, Eq(Len(add), IntLit(0)))
		// an append result may share its argument's backing array: not fresh unless the argument was
		r.Reg.Fresh = base.Reg.Fresh
		r.Reg.FreshT = base.Reg.FreshT
		r.Reg.Pool = base.Reg.Pool
		return r
	}
	// array-represented: append elements of a slice
	src := args[1].(*SliceVal)
	rb := x.region(st, base.Reg)
	rs := x.region(st, src.Reg)
	if rb.Arr == nil || rs.Arr == nil {
		panic(unsupported("append on mixed representations"))
	}
	x.assume("A-APPEND")
	n := Add(base.Len, src.Len)
	var arr *Term
	if src.Len.Op == "int" && src.Len.Num.IsInt64() && src.Len.Num.Int64() <= 8 {
		// few elements: chain of stores
		arr = rb.Arr
		if !(base.Off.Op == "int" && base.Off.Num.Sign() == 0) {
			panic(unsupported("append to a slice with non-zero offset (array repr)"))
		}
		for i := int64(0); i < src.Len.Num.Int64(); i++ {
			arr = Store(arr, Add(base.Len, IntLit(i)), Select(rs.Arr, Add(src.Off, IntLit(i))))
		}
	} else {
		arr = Fresh("app", rb.Arr.S)
		j := Const(fmt.Sprintf("j!q%d", x.nextQ()), SInt)
		st.Assume(Forall([]*Term{j}, Implies(And(Le(IntLit(0), j), Lt(j, base.Len)), Eq(Select(arr, j), Select(rb.Arr, Add(base.Off, j)))), Select(arr, j)))
		k := Const(fmt.Sprintf("k!q%d", x.nextQ()), SInt)
		st.Assume(Forall([]*Term{k}, Implies(And(Le(IntLit(0), k), Lt(k, src.Len)), Eq(Select(arr, Add(base.Len, k)), Select(rs.Arr, Add(src.Off, k)))), Select(arr, Add(base.Len, k))))
	}
	esz := types.SizesFor("gc", "amd64").Sizeof(elt)
	x.countAllocN(st, Mul(IntLit(3*esz), src.Len)) // amortised growth (A-APPEND)
	// append allocates a new backing array exactly when the capacity does not suffice; otherwise the result may share
	// its argument's backing array and is owned only if the argument was
	reg := newObj(ObjRegion, elt, "app", false)
	reg.FreshT = Or(objFresh(base.Reg), Gt(n, base.Cap))
	st.Heap[reg] = &RegionVal{Arr: arr, Len: n}
	return &SliceVal{Reg: reg, Off: IntLit(0), Len: n, Cap: n, Nil: And(base.Nil, Eq(src.Len, IntLit(0))), Elt: elt}
}

// ---------- loops

func (x *Exec) loopSpec(fr *Frame, ord int) *LoopSpec {
	fn := fr.Fn.(*ssa.Function)
	if fn == x.fn && len(x.inl) == 0 {
		return x.spec.Loops[ord]
	}
	if sp, ok := x.W.Specs[funcKey(fn)]; ok {
		return sp.Loops[ord]
	}
	return nil
}

func (x *Exec) loopName(fr *Frame, ord int) string {
	prefix := ""
	if len(x.inl) > 0 {
		prefix = "@" + strings.Join(x.inl, "@") + "."
	}
	return fmt.Sprintf("%s#%s.%sloop%d", shortKey(funcKey(x.fn)), x.beh.Name, prefix, ord)
}

func (x *Exec) invEnv(st *State, fr *Frame, h *ssa.BasicBlock, entry *State, iter *Term) *CEnv {
	fn := fr.Fn.(*ssa.Function)
	env := &CEnv{x: x, st: st, entry: entry, vars: map[string]Value{}, fr: fr, fn: fn, at: h, pkg: pkgPathOf(fn)}
	env.vars["iter"] = iter
	if fn == x.fn && x.entry != nil {
		env.old = x.entry.pre
		for k, v := range x.entry.ghosts {
			env.vars[k] = v
		}
	}
	return env
}

func (x *Exec) loopEnter(st *State, fr *Frame, h, prev *ssa.BasicBlock, ord int, outer *loopCtx, k cont) {
	ls := x.loopSpec(fr, ord)
	lname := x.loopName(fr, ord)
	if ls == nil {
		// no loop contract: unroll. Complete (no bound on the inputs) exactly when every path leaves the loop within
		// unrollBound iterations - a loop over a fixed number of elements; otherwise the function needs an invariant.
		lc := &loopCtx{header: h, parent: outer, fr: fr, unroll: true, name: lname}
		x.execFrom(st, fr, h, prev, 0, lc, k)
		return
	}
	// bind phis with entry values to check initialisation
	x.bindPhis(st, fr, h, prev)
	entry := st.Clone()
	env := x.invEnv(st, fr, h, entry, IntLit(0))
	for i, c := range ls.Invariants {
		if c.Only != "" && c.Only != x.beh.Name {
			continue
		}
		t, err := env.evalBool(c.E)
		if err != nil {
			x.fail(fmt.Sprintf("%s invariant %d: %v", lname, i, err))
			continue
		}
		x.oblige(st, "inv.init", fmt.Sprintf("%s.inv[%d].init", lname, i), x.safetyProps(), t, "loop invariant holds on entry: "+c.Text, x.W.pos(h.Instrs[0].Pos()))
	}
	// discover what the body modifies
	mods := x.discoverMods(st, fr, h, ord, outer)
	// havoc
	run := func(keep bool) {
		hst := st.Clone()
		hfr := cloneFrame(fr)
		for _, in := range h.Instrs {
			p, ok := in.(*ssa.Phi)
			if !ok {
				break
			}
			hfr.Regs[p] = x.freshValue(hst, p.Type(), "loop."+p.Comment, false)
		}
		x.applyHavoc(hst, mods, keep)
		if hst.Alloc != nil {
			a := Fresh("alloc", SInt)
			hst.Assume(Ge(a, hst.Alloc))
			hst.Alloc = a
		}
		iter := Fresh("iter", SInt)
		hst.Assume(Le(IntLit(0), iter))
		henv := x.invEnv(hst, hfr, h, entry, iter)
		for _, c := range ls.Invariants {
			if c.Only != "" && c.Only != x.beh.Name {
				continue
			}
			t, err := henv.evalBool(c.E)
			if err != nil {
				continue
			}
			hst.Assume(t)
		}
		lc := &loopCtx{header: h, spec: ls, parent: outer, entry: entry, fr: hfr, iter: iter}
		if ls.Decreases != nil {
			v, err := henv.evalTerm(ls.Decreases)
			if err != nil {
				x.fail(fmt.Sprintf("%s variant: %v", lname, err))
			} else {
				lc.variant = x.toInt(v)
			}
		}
		lc.name = lname
		x.execFrom(hst, hfr, h, nil, 0, lc, k)
	}
	if x.keepCandidates(st, mods) {
		// a caller-provided list the body re-slices or appends to: besides the general case (the location holds some other
		// slice by now) explore the one where it still views the same backing array, so that writes through it are seen
		// as writes into the caller's memory
		x.paths++
		run(true)
		x.curPath++
	}
	run(false)
}

const unrollBound = 64

func (x *Exec) unrollBackEdge(st *State, fr *Frame, h, prev *ssa.BasicBlock, c *loopCtx, k cont) {
	if c.count+1 >= unrollBound {
		if x.quiet == 0 {
			x.fail(fmt.Sprintf("%s has no invariant and does not end within %d unrolled iterations", c.name, unrollBound))
		}
		x.returns++
		return
	}
	nc := *c
	nc.count++
	x.execFrom(st, fr, h, prev, 0, &nc, k)
}

func (x *Exec) loopBackEdge(st *State, fr *Frame, h, prev *ssa.BasicBlock, lc *loopCtx) {
	if lc.discover != nil {
		lc.discover.record(x, st)
		return
	}
	x.bindPhis(st, fr, h, prev)
	env := x.invEnv(st, fr, h, lc.entry, Add(lc.iter, IntLit(1)))
	for i, c := range lc.spec.Invariants {
		if c.Only != "" && c.Only != x.beh.Name {
			continue
		}
		t, err := env.evalBool(c.E)
		if err != nil {
			x.fail(fmt.Sprintf("%s invariant %d: %v", lc.name, i, err))
			continue
		}
		x.oblige(st, "inv.preserve", fmt.Sprintf("%s.inv[%d].preserve", lc.name, i), x.safetyProps(), t, "loop invariant preserved: "+c.Text, x.W.pos(h.Instrs[0].Pos()))
	}
	if lc.variant != nil {
		v, err := env.evalTerm(lc.spec.Decreases)
		if err == nil {
			v = x.toInt(v)
			x.oblige(st, "variant", lc.name+".variant", x.safetyProps(), And(Lt(v, lc.variant), Ge(lc.variant, IntLit(0))),
				"loop variant decreases and is bounded below: "+lc.spec.Decreases.String(), x.W.pos(h.Instrs[0].Pos()))
		}
	} else if x.quiet == 0 {
		x.oblige(st, "variant", lc.name+".variant", x.safetyProps(), TFalse, "loop has no decreases clause", x.W.pos(h.Instrs[0].Pos()))
	}
	x.returns++ // a completed path
}

// ---- modification discovery: run the body once from a havocked header, diff the heap at back edges

type modSet struct {
	leaves map[*Obj][][]int
	whole  map[*Obj]bool
}

func (d *discoverCtx) record(x *Exec, st *State) {
	for o, cv := range st.Heap {
		hv, ok := d.head.Heap[o]
		if !ok {
			hv, ok = x.lazy[o]
			if !ok {
				continue // allocated inside the loop body
			}
		}
		if cv == hv {
			continue
		}
		switch o.Kind {
		case ObjCell:
			var paths [][]int
			diffLeaves(hv, cv, nil, &paths)
			d.leafMods[o] = append(d.leafMods[o], paths...)
		default:
			d.mods[o] = true
		}
	}
}

func diffLeaves(a, b Value, path []int, out *[][]int) {
	if a == b {
		return
	}
	switch av := a.(type) {
	case *StructVal:
		if bv, ok := b.(*StructVal); ok && len(av.Fields) == len(bv.Fields) {
			for i := range av.Fields {
				diffLeaves(av.Fields[i], bv.Fields[i], append(append([]int(nil), path...), i), out)
			}
			return
		}
	case *ArrVal:
		if bv, ok := b.(*ArrVal); ok && av.Bytes == nil && bv.Bytes == nil && len(av.Elems) == len(bv.Elems) {
			for i := range av.Elems {
				diffLeaves(av.Elems[i], bv.Elems[i], append(append([]int(nil), path...), i), out)
			}
			return
		}
	case *PtrVal:
		if bv, ok := b.(*PtrVal); ok && av.Obj == bv.Obj && av.Nil == bv.Nil && fmt.Sprint(av.Path) == fmt.Sprint(bv.Path) {
			return
		}
	case *SliceVal:
		if bv, ok := b.(*SliceVal); ok && av.Reg == bv.Reg && av.Off == bv.Off && av.Len == bv.Len && av.Cap == bv.Cap && av.Nil == bv.Nil {
			return
		}
	case *IfaceVal:
		if bv, ok := b.(*IfaceVal); ok && av.Sym == bv.Sym && av.Dyn == bv.Dyn && av.V == bv.V {
			return
		}
	case *MapVal:
		if bv, ok := b.(*MapVal); ok && av.Obj == bv.Obj {
			return
		}
	}
	*out = append(*out, append([]int(nil), path...))
}

func (x *Exec) discoverMods(st *State, fr *Frame, h *ssa.BasicBlock, ord int, outer *loopCtx) *modSet {
	x.quiet++
	defer func() { x.quiet-- }()
	dst := st.Clone()
	dfr := cloneFrame(fr)
	for _, in := range h.Instrs {
		p, ok := in.(*ssa.Phi)
		if !ok {
			break
		}
		dfr.Regs[p] = x.freshValue(dst, p.Type(), "disc."+p.Comment, false)
	}
	// materialise every input object reachable from registers so that the diff sees it
	d := &discoverCtx{head: dst.Clone(), mods: map[*Obj]bool{}, leafMods: map[*Obj][][]int{}}
	lc := &loopCtx{header: h, discover: d, parent: outer, fr: dfr, spec: x.loopSpec(fr, ord)}
	savedPaths, savedRet, savedCur := x.paths, x.returns, x.curPath
	savedErrs := len(x.errs)
	x.execFrom(dst, dfr, h, nil, 0, lc, func(st2 *State, res []Value) {})
	x.paths, x.returns, x.curPath = savedPaths, savedRet, savedCur
	_ = savedErrs
	ms := &modSet{leaves: d.leafMods, whole: d.mods}
	return ms
}

// keepable: a slice-typed location holding a view of memory that is definitely not this call's own (array-represented).
func (x *Exec) keepable(st *State, v Value) (*SliceVal, bool) {
	sv, ok := v.(*SliceVal)
	if !ok || sv.Reg.Fresh || sv.Reg.FreshT != nil || sv.Reg.Pool || isByte(sv.Elt) {
		return nil, false
	}
	if rv := x.region(st, sv.Reg); rv.Arr == nil {
		return nil, false
	}
	return sv, true
}

func (x *Exec) keepCandidates(st *State, ms *modSet) bool {
	if x.quiet > 0 {
		return false
	}
	for o, paths := range ms.leaves {
		cur, ok := x.heapGet(st, o)
		if !ok {
			continue
		}
		for _, p := range paths {
			if _, ok := x.keepable(st, getPath(cur, p)); ok {
				return true
			}
		}
	}
	return false
}

func sortedObjs[V any](m map[*Obj]V) []*Obj {
	out := make([]*Obj, 0, len(m))
	for o := range m {
		out = append(out, o)
	}
	sort.Slice(out, func(i, j int) bool { return out[i].ID < out[j].ID })
	return out
}

func (x *Exec) applyHavoc(st *State, ms *modSet, keep bool) {
	// in allocation order: the names of the havoc constants (and with them the query text) must not depend on map order
	for _, o := range sortedObjs(ms.whole) {
		switch o.Kind {
		case ObjRegion:
			old := x.region(st, o)
			nv := x.freshRegion(st, o.Typ, o.Name+"~")
			if old.Bytes != nil {
				// the region keeps its capacity
				st.Assume(Eq(App("len", SInt, nv.Bytes), Len(old.Bytes)))
			} else {
				nv.Len = old.Len
			}
			st.Heap[o] = nv
		case ObjMap:
			mt := under(o.Typ).(*types.Map)
			nm := x.freshMapContent(st, mt, o.Name+"~")
			nm.Nil = x.mapC(st, o).Nil
			st.Heap[o] = nm
		}
	}
	for _, o := range sortedObjs(ms.leaves) {
		paths := ms.leaves[o]
		cur, ok := x.heapGet(st, o)
		if !ok {
			continue
		}
		for _, p := range paths {
			old := getPath(cur, p)
			t := pathType(o.Typ, p)
			var nv Value
			if ot, ok := old.(*Term); ok {
				nv = Fresh(o.Name+"~", ot.S)
				if ot.S == SInt {
					if lo, hi := intRange(t); lo != nil {
						st.Assume(And(Le(IntBig(lo), nv.(*Term)), Le(nv.(*Term), IntBig(hi))))
					}
				}
			} else if sv, ok := x.keepable(st, old); ok && keep {
				// still the same backing array, offset and capacity; any length
				n := Fresh(o.Name+"~len", SInt)
				st.Assume(And(Le(IntLit(0), n), Le(n, sv.Cap)))
				nilf := Fresh(o.Name+"~nil", SBool)
				st.Assume(Implies(nilf, Eq(n, IntLit(0))))
				nv = &SliceVal{Reg: sv.Reg, Off: sv.Off, Len: n, Cap: sv.Cap, Nil: nilf, Elt: sv.Elt}
			} else {
				nv = x.freshValue(st, t, o.Name+"~", false)
			}
			cur = setPath(cur, p, nv)
		}
		st.Heap[o] = cur
	}
}

// ghostArgs evaluates the ghost arguments the verified function's contract passes to a callee behaviour.
func (x *Exec) ghostArgs(pre *State, callee *ssa.Function, b *Behavior) (map[string]Value, bool) {
	if x.entry == nil || len(x.inl) > 0 {
		return nil, false
	}
	out := map[string]Value{}
	env := &CEnv{x: x, st: pre, old: x.entry.pre, vars: map[string]Value{}, pkg: x.spec.Pkg}
	for k, v := range x.entry.params {
		env.vars[k] = v
	}
	for k, v := range x.entry.ghosts {
		env.vars[k] = v
	}
	for _, g := range b.Ghost {
		src, ok := x.spec.Options["ghost."+callee.Name()+"."+g.Name]
		if !ok {
			return nil, false
		}
		ex, err := ParseCExpr(src)
		if err != nil {
			x.fail("ghost argument " + g.Name + " for " + callee.Name() + ": " + err.Error())
			return nil, false
		}
		var val Value
		func() {
			defer func() {
				if r := recover(); r != nil {
					if _, isC := r.(cevalErr); isC {
						val = nil
						return
					}
					panic(r)
				}
			}()
			val = env.eval(ex)
		}()
		if val == nil {
			return nil, false // the ghost argument is not meaningful in this behaviour (e.g. refers to a ghost of another behaviour)
		}
		out[g.Name] = val
	}
	return out, true
}

// isLoggingCall: the repository's logger package (except the process-ending Fatal family) and the print functions of fmt / log.
func isLoggingCall(fn *ssa.Function) bool {
	p := pkgPathOf(fn)
	n := fn.Name()
	if strings.Contains(n, "Fatal") || strings.Contains(n, "Panic") {
		return false
	}
	if p == modPath+"/logger" {
		return true
	}
	if p == "log" && (strings.HasPrefix(n, "Print")) {
		return true
	}
	if p == "fmt" && (n == "Println" || n == "Printf" || n == "Print") {
		return true
	}
	return false
}
