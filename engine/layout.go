package main

type LayoutType struct{}

func (e *CEnv) layoutCall(name string, args []*CExpr) (Value, bool) { return nil, false }
