package main

// Wire-layout tables (specs/layouts/*.json) and the contracts synthesised from them for
// IEncode / IDecode (`layout enc`, `layout dec` directives in the contract files).

import (
	"encoding/json"
	"fmt"
	"go/types"

	"golang.org/x/tools/go/ssa"
	"os"
	"path/filepath"
	"regexp"
	"strconv"
	"strings"
)

type LField struct {
	Wire   string
	Kind   string // u8 u16 u32 u64 fixed bin hex cstr bytes rep tlvs options seq3
	N      int    // width for fixed/bin/hex, element width for rep
	Ref    string // length / count member for bytes / rep
	Member string
	Max    int // cstr: maximum octets including the NUL (0 = not stated)
}

type LayoutType struct {
	Pkg       string
	Type      string
	Header    string
	LenMode   string
	Command   string
	Section   string
	Fields    []LField
	Normalise []struct {
		If  string                 `json:"if"`
		Set map[string]interface{} `json:"set"`
	}
	Observed map[string]interface{}
	Doc      string
}

type layoutFile struct {
	Package  string `json:"package"`
	Document string `json:"document"`
	Header   string `json:"header"`
	Length   string `json:"length"`
	Types    []struct {
		Type      string                 `json:"type"`
		Section   string                 `json:"section"`
		Command   json.RawMessage        `json:"command"`
		Fields    [][]interface{}        `json:"fields"`
		Normalise json.RawMessage        `json:"normalise"`
		Observed  map[string]interface{} `json:"observed"`
	} `json:"types"`
}

var kindRe = regexp.MustCompile(`^(\w+)(?:\((.*)\))?$`)

func parseKind(k string) (LField, error) {
	m := kindRe.FindStringSubmatch(strings.TrimSpace(k))
	if m == nil {
		return LField{}, fmt.Errorf("bad field kind %q", k)
	}
	f := LField{Kind: m[1]}
	switch m[1] {
	case "u8", "u16", "u32", "u64", "cstr", "tlvs", "options", "seq3":
	case "fixed", "bin", "hex":
		n, err := strconv.Atoi(m[2])
		if err != nil {
			return f, fmt.Errorf("bad width in %q", k)
		}
		f.N = n
	case "bytes":
		f.Ref = strings.TrimSpace(m[2])
	case "rep":
		parts := strings.SplitN(m[2], ",", 2)
		if len(parts) != 2 {
			return f, fmt.Errorf("bad rep in %q", k)
		}
		f.Ref = strings.TrimSpace(parts[0])
		inner, err := parseKind(parts[1])
		if err != nil || inner.Kind != "fixed" {
			return f, fmt.Errorf("rep of %q not supported", parts[1])
		}
		f.N = inner.N
	default:
		return f, fmt.Errorf("unknown field kind %q", k)
	}
	return f, nil
}

func (w *World) loadLayouts() error {
	files, _ := filepath.Glob(filepath.Join(w.Root, "specs", "layouts", "*.json"))
	for _, fn := range files {
		b, err := os.ReadFile(fn)
		if err != nil {
			return err
		}
		var lf layoutFile
		if err := json.Unmarshal(b, &lf); err != nil {
			return fmt.Errorf("%s: %v", fn, err)
		}
		for _, t := range lf.Types {
			lt := &LayoutType{Pkg: lf.Package, Type: t.Type, Header: lf.Header, LenMode: lf.Length, Section: t.Section, Observed: t.Observed, Doc: lf.Document}
			if len(t.Command) > 0 {
				var one string
				var many []string
				if json.Unmarshal(t.Command, &one) == nil {
					lt.Command = one
				} else if json.Unmarshal(t.Command, &many) == nil {
					lt.Command = strings.Join(many, ",")
				}
			}
			if len(t.Normalise) > 0 {
				if err := json.Unmarshal(t.Normalise, &lt.Normalise); err != nil {
					return fmt.Errorf("%s: %s: normalise: %v", fn, t.Type, err)
				}
			}
			for _, f := range t.Fields {
				if len(f) < 3 {
					return fmt.Errorf("%s: %s: bad field row %v", fn, t.Type, f)
				}
				lfld, err := parseKind(fmt.Sprint(f[1]))
				if err != nil {
					return fmt.Errorf("%s: %s: %v", fn, t.Type, err)
				}
				lfld.Wire, lfld.Member = fmt.Sprint(f[0]), fmt.Sprint(f[2])
				if len(f) > 3 {
					if m, ok := f[3].(map[string]interface{}); ok {
						if v, ok := m["max_octets_incl_nul"].(float64); ok {
							lfld.Max = int(v)
						}
					}
				}
				lt.Fields = append(lt.Fields, lfld)
			}
			w.Layouts[lt.Pkg+"."+lt.Type] = lt
		}
	}
	return nil
}

// observed(): the layout the code is known to implement where it deviates from the document (known findings).
func (lt *LayoutType) withObserved() *LayoutType {
	if lt.Observed == nil {
		return lt
	}
	c := *lt
	c.Fields = append([]LField(nil), lt.Fields...)
	if ef, ok := lt.Observed["extra_fields"].([]interface{}); ok {
		for _, row := range ef {
			r := row.([]interface{})
			f, err := parseKind(r[1].(string))
			if err == nil {
				f.Wire, f.Member = r[0].(string), r[2].(string)
				c.Fields = append(c.Fields, f)
			}
		}
	}
	return &c
}

func (lt *LayoutType) headerMembers(r string) (lenMember string, rest []string) {
	switch lt.Header {
	case "cmpp12", "smgp12":
		return r + ".Header.TotalLength", []string{"be32(int(" + r + ".Header.CommandID))", "be32(int(" + r + ".Header.SequenceID))"}
	case "smpp16":
		return r + ".Header.Length", []string{"be32(int(" + r + ".Header.ID))", "be32(int(" + r + ".Header.Status))", "be32(int(" + r + ".Header.Sequence))"}
	case "sgip20":
		return r + ".Header.TotalLength", []string{"be32(int(" + r + ".Header.CommandID))", "be32(int(" + r + ".Header.Sequence[0]))", "be32(int(" + r + ".Header.Sequence[1]))", "be32(int(" + r + ".Header.Sequence[2]))"}
	}
	return "", nil
}

func (lt *LayoutType) headerEq(a, b string) []string {
	switch lt.Header {
	case "cmpp12", "smgp12":
		return []string{a + ".Header.CommandID == " + b + ".Header.CommandID", a + ".Header.SequenceID == " + b + ".Header.SequenceID"}
	case "smpp16":
		return []string{a + ".Header.ID == " + b + ".Header.ID", a + ".Header.Status == " + b + ".Header.Status", a + ".Header.Sequence == " + b + ".Header.Sequence"}
	case "sgip20":
		return []string{a + ".Header.CommandID == " + b + ".Header.CommandID", a + ".Header.Sequence[0] == " + b + ".Header.Sequence[0]",
			a + ".Header.Sequence[1] == " + b + ".Header.Sequence[1]", a + ".Header.Sequence[2] == " + b + ".Header.Sequence[2]"}
	}
	return nil
}

func (lt *LayoutType) headerLen() int {
	switch lt.Header {
	case "cmpp12", "smgp12":
		return 12
	case "smpp16":
		return 16
	case "sgip20":
		return 20
	}
	return 0
}

func (f LField) seg(r string) []string {
	m := r + "." + f.Member
	switch f.Kind {
	case "u8":
		return []string{"u8(int(" + m + "))"}
	case "u16", "u32", "u64":
		return []string{"be" + f.Kind[1:] + "(int(" + m + "))"}
	case "fixed":
		return []string{fmt.Sprintf("fixed(%s, %d)", m, f.N)}
	case "bin":
		return []string{"content(" + m + ")"}
	case "hex":
		return []string{"hexdec(" + m + ")"}
	case "cstr":
		return []string{"cstr(" + m + ")"}
	case "bytes":
		return []string{"content(" + m + ")"}
	case "rep":
		return []string{fmt.Sprintf("rep(elems(%s), %d, 0, len(%s))", m, f.N, m)}
	case "seq3":
		return []string{"be32(int(" + m + "[0]))", "be32(int(" + m + "[1]))", "be32(int(" + m + "[2]))"}
	case "tlvs", "options":
		return []string{"tlvser(" + m + ", ORD, 0, len(" + m + "))"}
	}
	return nil
}

func (f LField) minWidth() int {
	switch f.Kind {
	case "u8":
		return 1
	case "u16":
		return 2
	case "u32":
		return 4
	case "u64":
		return 8
	case "fixed", "bin", "hex":
		return f.N
	case "cstr":
		return 1
	case "seq3":
		return 12
	}
	return 0
}

// wf clauses for member f of record r
func (f LField) wf(r string) []string {
	m := r + "." + f.Member
	switch f.Kind {
	case "fixed":
		return []string{fmt.Sprintf("nonul(%s) && len(%s) <= %d", m, m, f.N)}
	case "bin":
		return []string{fmt.Sprintf("len(%s) == %d", m, f.N)}
	case "hex":
		return []string{fmt.Sprintf("%s == hexenc(hexdec(%s)) && len(hexdec(%s)) == %d", m, m, m, f.N)}
	case "cstr":
		return []string{"nonul(" + m + ")"}
	case "bytes":
		return []string{fmt.Sprintf("len(%s) == int(%s.%s)", m, r, f.Ref)}
	case "rep":
		return []string{fmt.Sprintf("len(%s) == int(%s.%s)", m, r, f.Ref),
			fmt.Sprintf("forall j int :: 0 <= j && j < len(%s) ==> nonul(%s[j]) && len(%s[j]) <= %d", m, m, m, f.N)}
	case "tlvs", "options":
		return []string{"tlvwf(" + m + ")"}
	}
	return nil
}

// eq clauses: decoded member of a equals member of b
func (f LField) eq(a, b string) []string {
	ma, mb := a+"."+f.Member, b+"."+f.Member
	switch f.Kind {
	case "rep":
		return []string{fmt.Sprintf("len(%s) == len(%s)", ma, mb),
			fmt.Sprintf("forall j int :: 0 <= j && j < len(%s) ==> %s[j] == %s[j]", mb, ma, mb)}
	case "seq3":
		return []string{ma + "[0] == " + mb + "[0]", ma + "[1] == " + mb + "[1]", ma + "[2] == " + mb + "[2]"}
	case "tlvs", "options":
		return []string{"mapeq(" + ma + ", " + mb + ")"}
	}
	return []string{ma + " == " + mb}
}

// layoutText: concatenation of the segments [from,to) (field indices; -1 = include header) as a cat(...) expression.
func (lt *LayoutType) layoutText(r, lenExpr string, withLen bool, from, to int) string {
	var segs []string
	if from < 0 {
		if lt.Header != "none" {
			_, rest := lt.headerMembers(r)
			if withLen {
				segs = append(segs, "be32("+lenExpr+")")
			}
			segs = append(segs, rest...)
		}
		from = 0
	}
	for i := from; i < to && i < len(lt.Fields); i++ {
		segs = append(segs, lt.Fields[i].seg(r)...)
	}
	if len(segs) == 0 {
		return "eps"
	}
	return "cat(" + strings.Join(segs, ", ") + ")"
}

func (lt *LayoutType) tlvField() *LField {
	for i := range lt.Fields {
		if lt.Fields[i].Kind == "tlvs" || lt.Fields[i].Kind == "options" {
			return &lt.Fields[i]
		}
	}
	return nil
}

func (lt *LayoutType) fieldIndex(member string) int {
	for i, f := range lt.Fields {
		if f.Member == member {
			return i
		}
	}
	return -1
}

func (lt *LayoutType) mandatory() int {
	n := lt.headerLen()
	for _, f := range lt.Fields {
		n += f.minWidth()
	}
	return n
}

func mustClause(kind, props, label, text string) *Clause {
	e, err := ParseCExpr(text)
	if err != nil {
		panic(fmt.Errorf("synthesised clause %q: %v", text, err))
	}
	c := &Clause{Kind: kind, E: e, Text: text, Label: label}
	if props != "" {
		c.Props = strings.Split(props, ",")
	}
	return c
}

// synthesise adds the table-derived behaviours to a contract carrying a `layout` directive.
func (w *World) synthesise(fs *FuncSpec) error {
	dir := strings.Fields(fs.Layout)
	if len(dir) == 0 {
		return nil
	}
	if dir[0] == "dispatch" {
		return w.synthDispatch(fs)
	}
	tn := strings.TrimPrefix(fs.Recv, "*")
	doc := w.Layouts[fs.Pkg+"."+tn]
	if doc == nil {
		return fmt.Errorf("%s: no layout table for type %s", fs.Key, tn)
	}
	fn := w.LookupFunc(fs)
	if fn == nil {
		return nil // reported as a binding failure later
	}
	r := fn.Params[0].Name()
	// the document layout is the specification; an `observed` block only narrows a known finding (see check.go)
	variants := []struct {
		lt     *LayoutType
		suffix string
		props  string
	}{{doc, "", "C01,C02,C11"}}
	if doc.Observed != nil && doc.Observed["extra_fields"] != nil {
		// the code is known to implement a layout that deviates from the document (a listed known finding): the document
		// layout remains the C02 obligation; round trip and every other clause are checked against the observed layout
		variants = variants[:0]
		variants = append(variants, struct {
			lt     *LayoutType
			suffix string
			props  string
		}{doc, "", "C02"}, struct {
			lt     *LayoutType
			suffix string
			props  string
		}{doc.withObserved(), "~observed", "C01,C02,C11"})
	}
	gen := func(lt *LayoutType, suffix, props string, last bool) error {
		if lt.Header == "none" {
			props += ",C18" // the CMPP status-report body is part of the delivery-receipt property
		} else if dir[0] == "enc" {
			props += ",C10" // "the sequence number / command set on the PDU is what IEncode puts at the header offsets" is a C10 clause too
		}
		lenMember, _ := lt.headerMembers(r)
		_ = lenMember
		switch dir[0] {
		case "enc":
			enc := &Behavior{Name: "enc" + suffix, Props: strings.Split(props, ",")}
			enc.Requires = append(enc.Requires, mustClause("requires", "", "", r+" != nil"))
			norm := map[string]bool{}
			for _, n := range lt.Normalise {
				for m := range n.Set {
					norm[m] = true
				}
			}
			for _, f := range lt.Fields {
				for _, c := range f.wf(r) {
					enc.Requires = append(enc.Requires, mustClause("requires", "", "", c))
				}
			}
			if lt.Header != "none" {
				if tf := lt.tlvField(); tf != nil {
					// total size below 2^32 whatever order the optional parameters are emitted in
					enc.Requires = append(enc.Requires, mustClause("requires", "", "", "forall tord Ord :: isperm(tord, "+r+"."+tf.Member+") ==> len("+strings.ReplaceAll(lt.layoutText(r, "0", true, -1, len(lt.Fields)), "ORD", "tord")+") < 4294967296"))
				} else {
					enc.Requires = append(enc.Requires, mustClause("requires", "", "", "len("+lt.layoutText(r, "0", true, -1, len(lt.Fields))+") < 4294967296"))
				}
			}
			enc.Ensures = append(enc.Ensures, mustClause("ensures", props, "enc.ok", "err == nil"))
			enc.Ensures = append(enc.Ensures, mustClause("ensures", "C12", "enc.owned", "err == nil ==> fresh(result)"))
			if tf := lt.tlvField(); tf != nil {
				lay := strings.ReplaceAll(lt.layoutText(r, "len(result)", true, -1, len(lt.Fields)), "ORD", "tord")
				enc.Ensures = append(enc.Ensures, mustClause("ensures", props, "enc.layout", "exists tord Ord :: isperm(tord, "+r+"."+tf.Member+") && result == "+lay))
				enc.Ensures = append(enc.Ensures, mustClause("ensures", props, "enc.len", "len(result) < 4294967296"))
			} else if lt.Header != "none" {
				enc.Ensures = append(enc.Ensures, mustClause("ensures", props, "enc.layout", "result == "+lt.layoutText(r, "len(result)", true, -1, len(lt.Fields))))
				enc.Ensures = append(enc.Ensures, mustClause("ensures", props, "enc.len", "len(result) < 4294967296"))
			} else {
				enc.Ensures = append(enc.Ensures, mustClause("ensures", props, "enc.layout", "result == "+lt.layoutText(r, "", false, -1, len(lt.Fields))))
			}
			for i, c := range lt.headerEq(r, "old("+r+")") {
				_ = i
				c2 := strings.Replace(c, "old("+r+").", "old("+r+".", 1)
				c2 = fixOld(c, r)
				enc.Ensures = append(enc.Ensures, mustClause("ensures", "C01", fmt.Sprintf("enc.frame.Header.%d", i), c2))
			}
			for _, f := range lt.Fields {
				if norm[f.Member] {
					continue
				}
				for j, c := range f.eq(r, "old("+r+")") {
					enc.Ensures = append(enc.Ensures, mustClause("ensures", "C01", fmt.Sprintf("enc.frame.%s.%d", f.Member, j), fixOld(c, r)))
				}
			}
			for _, n := range lt.Normalise {
				for m, v := range n.Set {
					cond := qualify(n.If, r, lt)
					val := qualify(fmt.Sprint(v), r, lt)
					text := fmt.Sprintf("(old(%s) ==> int(%s.%s) == old(int(%s))) && (!old(%s) ==> %s.%s == old(%s.%s))", cond, r, m, val, cond, r, m, r, m)
					enc.Ensures = append(enc.Ensures, mustClause("ensures", "C01", "enc.norm."+m, text))
				}
			}
			fs.Behaviors = append(fs.Behaviors, enc)
			// refusal of values that do not fit their fixed-width slot
			var over []string
			for _, f := range lt.Fields {
				if f.Kind == "fixed" {
					over = append(over, fmt.Sprintf("len(%s.%s) > %d", r, f.Member, f.N))
				}
			}
			if len(over) > 0 && last {
				ref := &Behavior{Name: "refuse" + suffix, Props: []string{"C01"}}
				ref.Requires = append(ref.Requires, mustClause("requires", "", "", r+" != nil"))
				ref.Requires = append(ref.Requires, mustClause("requires", "", "", strings.Join(over, " || ")))
				ref.Ensures = append(ref.Ensures, mustClause("ensures", "C01", "enc.refuse", "err != nil"))
				fs.Behaviors = append(fs.Behaviors, ref)
			}
		case "dec":
			if lt.Header != "none" && last {
				fs.Behaviors[0].Requires = append(fs.Behaviors[0].Requires, mustClause("requires", "", "", r+" != nil"))
				fs.Behaviors[0].Ensures = append(fs.Behaviors[0].Ensures, mustClause("ensures", "C10", "notunsupported", "err != sms.ErrUnsupportedPacket"))
				fs.Options["check-default"] = "true"
			}
			dec := &Behavior{Name: "dec" + suffix, Props: strings.Split(props, ",")}
			dec.Ghost = []CVar{{"gq", tn}}
			dec.Requires = append(dec.Requires, mustClause("requires", "", "", r+" != nil"))
			dec.Requires = append(dec.Requires, mustClause("requires", "", "", "len(data) < 4294967296"))
			for _, f := range lt.Fields {
				for _, c := range f.wf("gq") {
					dec.Requires = append(dec.Requires, mustClause("requires", "", "", c))
				}
				if f.Kind == "rep" {
					dec.Requires = append(dec.Requires, mustClause("requires", "", "", "len("+r+"."+f.Member+") == 0"))
				}
			}
			if tf := lt.tlvField(); tf != nil {
				dec.Ghost = append(dec.Ghost, CVar{"gord", "Ord"})
				dec.Requires = append(dec.Requires, mustClause("requires", "", "", "isperm(gord, gq."+tf.Member+")"))
				for _, callee := range []string{"ReadTLVs1", "ReadTLVs", "ReadOptions", "ParseOptions"} {
					fs.Options["ghost."+callee+".M"] = "gq." + tf.Member
					fs.Options["ghost."+callee+".ord"] = "gord"
				}
			}
			dec.Requires = append(dec.Requires, mustClause("requires", "", "", "content(data) == "+strings.ReplaceAll(lt.layoutText("gq", "len(data)", true, -1, len(lt.Fields)), "ORD", "gord")))
			dec.Ensures = append(dec.Ensures, mustClause("ensures", props, "dec.ok", "err == nil"))
			if lenMember != "" {
				dec.Ensures = append(dec.Ensures, mustClause("ensures", props, "dec.Header.len", "int("+lenMember+") == len(data)"))
			}
			for i, c := range lt.headerEq(r, "gq") {
				dec.Ensures = append(dec.Ensures, mustClause("ensures", props, fmt.Sprintf("dec.Header.%d", i), c))
			}
			for _, f := range lt.Fields {
				for j, c := range f.eq(r, "gq") {
					pp := props
					if f.Kind == "bin" && f.N == 16 {
						pp += ",C15" // the 16-octet authenticators: their faithful transport is the end-to-end half of C15
					}
					dec.Ensures = append(dec.Ensures, mustClause("ensures", pp, fmt.Sprintf("dec.%s.%d", f.Member, j), c))
				}
			}
			for _, f := range lt.Fields {
				if f.Kind == "tlvs" || f.Kind == "options" || (f.Kind == "bytes" && memberIsByteSlice(fn, f.Member)) {
					dec.Ensures = append(dec.Ensures, mustClause("ensures", "C12", "dec.owned."+f.Member, "fresh("+r+"."+f.Member+")"))
				}
				if f.Kind == "rep" {
					dec.Ensures = append(dec.Ensures, mustClause("ensures", "C12", "dec.owned."+f.Member, repOwned(r, f.Member)))
				}
			}
			fs.Behaviors = append(fs.Behaviors, dec)
			if !last {
				return nil
			}
			// arbitrary input: safety, truncation reported, decoded value well-formed, allocation budget
			safe := &Behavior{Name: "safe", Props: []string{"C03"}}
			safe.Requires = append(safe.Requires, mustClause("requires", "", "", r+" != nil"))
			for _, f := range lt.Fields {
				if f.Kind == "rep" {
					safe.Requires = append(safe.Requires, mustClause("requires", "", "", "len("+r+"."+f.Member+") == 0"))
				}
			}
			safe.Ensures = append(safe.Ensures, mustClause("ensures", "C03", "trunc", fmt.Sprintf("err == nil ==> len(data) >= %d", lt.mandatory())))
			safe.Ensures = append(safe.Ensures, mustClause("ensures", "C03", "alloc", "alloc <= 1048576 + 64 * len(data)"))
			for _, f := range lt.Fields {
				for j, c := range f.wf(r) {
					if f.Kind == "bytes" || f.Kind == "rep" && j == 0 {
						// counts are what was read: consistency of count and list is part of C11's re-encodability
					}
					if f.Kind == "bin" {
						// re-encodability only needs the value to fit its slot
						c = fmt.Sprintf("len(%s.%s) <= %d", r, f.Member, f.N)
					}
					safe.Ensures = append(safe.Ensures, mustClause("ensures", "C11", fmt.Sprintf("wf.%s.%d", f.Member, j), "err == nil ==> ("+c+")"))
				}
			}
			for _, f := range lt.Fields {
				if f.Kind == "tlvs" || f.Kind == "options" || (f.Kind == "bytes" && memberIsByteSlice(fn, f.Member)) {
					// whatever the input: what the decoder stores shares no memory with the input buffer or a pool
					safe.Ensures = append(safe.Ensures, mustClause("ensures", "C12", "owned."+f.Member, "err == nil ==> fresh("+r+"."+f.Member+")"))
				}
				if f.Kind == "rep" {
					safe.Ensures = append(safe.Ensures, mustClause("ensures", "C12", "owned."+f.Member, repOwned(r, f.Member)))
				}
			}
			fs.Behaviors = append(fs.Behaviors, safe)
			// decoding into an object that already holds an earlier result: the list that result carries is not written
			var reuse *Behavior
			for _, f := range lt.Fields {
				if f.Kind == "rep" {
					if reuse == nil {
						reuse = &Behavior{Name: "reuse", Props: []string{"C12"}}
						reuse.Requires = append(reuse.Requires, mustClause("requires", "", "", r+" != nil"))
					}
					reuse.Ensures = append(reuse.Ensures, mustClause("ensures", "C12", "kept."+f.Member, "kept("+r+"."+f.Member+")"))
				}
			}
			if reuse != nil {
				fs.Behaviors = append(fs.Behaviors, reuse)
			}
		}
		return nil
	}
	switch dir[0] {
	case "enc", "dec":
		for i, v := range variants {
			if err := gen(v.lt, v.suffix, v.props, i == len(variants)-1); err != nil {
				return err
			}
		}
		return nil
	case "cmd", "resp", "setseq", "getseq":
		return w.synthPairing(fs, doc, r, dir[0])
	default:
		return fmt.Errorf("%s: unknown layout directive %q", fs.Key, fs.Layout)
	}
	return nil
}

func (lt *LayoutType) idMember() string {
	if lt.Header == "smpp16" {
		return "Header.ID"
	}
	return "Header.CommandID"
}

func (lt *LayoutType) seqMember() string {
	switch lt.Header {
	case "smpp16":
		return "Header.Sequence"
	case "sgip20":
		return "Header.Sequence[2]"
	}
	return "Header.SequenceID"
}

func (lt *LayoutType) commands() []string { return strings.Split(lt.Command, ",") }

func parseCmd(s string) uint64 {
	v, _ := strconv.ParseUint(strings.TrimPrefix(strings.TrimSpace(s), "0x"), 16, 64)
	return v
}

// responseType: the type of the same package whose command is this type's command with the response bit set.
func (w *World) responseType(lt *LayoutType) *LayoutType {
	want := map[uint64]bool{}
	for _, c := range lt.commands() {
		want[parseCmd(c)|0x80000000] = true
	}
	for _, k := range sortedKeys(w.Layouts) {
		o := w.Layouts[k]
		if o.Pkg != lt.Pkg || o == lt || o.Command == "" {
			continue
		}
		for _, c := range o.commands() {
			if want[parseCmd(c)] {
				return o
			}
		}
	}
	return nil
}

func (w *World) synthPairing(fs *FuncSpec, lt *LayoutType, r, kind string) error {
	if lt.Command == "" {
		return fmt.Errorf("%s: type has no command id", fs.Key)
	}
	b := fs.Behaviors[0]
	b.Requires = append(b.Requires, mustClause("requires", "", "", r+" != nil"))
	fs.Props = append(fs.Props, "C10")
	cmds := lt.commands()
	isResp := parseCmd(cmds[0])&0x80000000 != 0
	switch kind {
	case "cmd":
		if len(cmds) == 1 {
			b.Ensures = append(b.Ensures, mustClause("ensures", "C10", "cmd", fmt.Sprintf("cmdval(result) == %d", parseCmd(cmds[0]))))
		} else {
			// several command ids share this Go type (SMPP bind flavours): the reported command is the one in the header
			var in []string
			for _, c := range cmds {
				in = append(in, fmt.Sprintf("int(%s.%s) == %d", r, lt.idMember(), parseCmd(c)))
			}
			b.Ensures = append(b.Ensures, mustClause("ensures", "C10", "cmd", fmt.Sprintf("(%s) ==> cmdval(result) == int(%s.%s)", strings.Join(in, " || "), r, lt.idMember())))
		}
	case "resp":
		if isResp {
			b.Ensures = append(b.Ensures, mustClause("ensures", "C10", "resp.none", "result == nil"))
			break
		}
		rt := w.responseType(lt)
		if rt == nil {
			b.Ensures = append(b.Ensures, mustClause("ensures", "C10", "resp.none", "result == nil"))
			break
		}
		b.Ensures = append(b.Ensures, mustClause("ensures", "C10", "resp.type", fmt.Sprintf("typeIs(result, \"*%s.%s\")", shortKey(rt.Pkg), rt.Type)))
		if len(cmds) == 1 {
			b.Ensures = append(b.Ensures, mustClause("ensures", "C10", "resp.cmd", fmt.Sprintf("int(result.%s) == %d", lt.idMember(), parseCmd(cmds[0])|0x80000000)))
		} else {
			var in []string
			for _, c := range cmds {
				in = append(in, fmt.Sprintf("int(%s.%s) == %d", r, lt.idMember(), parseCmd(c)))
			}
			b.Ensures = append(b.Ensures, mustClause("ensures", "C10", "resp.cmd", fmt.Sprintf("(%s) ==> int(result.%s) == int(%s.%s) + 2147483648", strings.Join(in, " || "), lt.idMember(), r, lt.idMember())))
		}
		b.Ensures = append(b.Ensures, mustClause("ensures", "C10", "resp.seq", fmt.Sprintf("result.%s == %s.%s", lt.seqMember(), r, lt.seqMember())))
	case "setseq":
		fn := w.LookupFunc(fs)
		arg := "id"
		if fn != nil && len(fn.Params) > 1 {
			arg = fn.Params[1].Name()
		}
		fs.Options["modifies"] = r + "." + strings.Split(lt.seqMember(), "[")[0]
		b.Ensures = append(b.Ensures, mustClause("ensures", "C10", "setseq", fmt.Sprintf("int(%s.%s) == int(%s)", r, lt.seqMember(), arg)))
	case "getseq":
		b.Ensures = append(b.Ensures, mustClause("ensures", "C10", "getseq", fmt.Sprintf("result == %s.%s", r, lt.seqMember())))
	}
	return nil
}

// synthDispatch: contract of a per-protocol dispatcher from the table of its package.
func (w *World) synthDispatch(fs *FuncSpec) error {
	var lts []*LayoutType
	for _, k := range sortedKeys(w.Layouts) {
		if lt := w.Layouts[k]; lt.Pkg == fs.Pkg && lt.Command != "" {
			lts = append(lts, lt)
		}
	}
	if len(lts) == 0 {
		return fmt.Errorf("%s: no layout tables for package", fs.Key)
	}
	h := lts[0].headerLen()
	b := fs.Behaviors[0]
	fs.Props = append(fs.Props, "C10", "C03")
	cmdExpr := "dbe32(ext(content(data), 4, 8))"
	var all []string
	for _, lt := range lts {
		var conds []string
		for _, c := range lt.commands() {
			conds = append(conds, fmt.Sprintf("%s == %d", cmdExpr, parseCmd(c)))
			all = append(all, fmt.Sprintf("%s == %d", cmdExpr, parseCmd(c)))
		}
		cond := "(" + strings.Join(conds, " || ") + ")"
		b.Ensures = append(b.Ensures, mustClause("ensures", "C10", "type."+lt.Type, fmt.Sprintf("len(data) >= %d && err == nil && %s ==> typeIs(result, \"*%s.%s\")", h, cond, shortKey(lt.Pkg), lt.Type)))
		b.Ensures = append(b.Ensures, mustClause("ensures", "C10", "dispatchable."+lt.Type, fmt.Sprintf("len(data) >= %d && %s ==> err != sms.ErrUnsupportedPacket", h, cond)))
	}
	b.Ensures = append(b.Ensures, mustClause("ensures", "C10", "unsupported", fmt.Sprintf("len(data) >= %d && !(%s) ==> result == nil && err == sms.ErrUnsupportedPacket", h, strings.Join(all, " || "))))
	b.Ensures = append(b.Ensures, mustClause("ensures", "C10", "nonnil", "err == nil ==> result != nil"))
	b.Ensures = append(b.Ensures, mustClause("ensures", "C03", "trunc", fmt.Sprintf("err == nil ==> len(data) >= %d", h)))
	return nil
}

// fixOld rewrites "<r>.X == old(<r>).X" into "<r>.X == old(<r>.X)" (old() takes a whole expression).
var oldRe = regexp.MustCompile(`old\((\w+)\)((?:\.\w+|\[\w+\])+)`)

func fixOld(c, r string) string {
	return oldRe.ReplaceAllString(c, "old($1$2)")
}

var identRe = regexp.MustCompile(`\b[A-Z]\w*\b`)

// qualify turns bare member names of a normalise condition into <r>.<Member>.
func qualify(s, r string, lt *LayoutType) string {
	return identRe.ReplaceAllStringFunc(s, func(id string) string {
		if i := lt.fieldIndex(id); i >= 0 {
			if strings.HasPrefix(lt.Fields[i].Kind, "u") {
				return "int(" + r + "." + id + ")"
			}
			return r + "." + id
		}
		return id
	})
}

func typeNameFull(t types.Type) string {
	if n, ok := t.(*types.Named); ok && n.Obj().Pkg() != nil {
		return n.Obj().Pkg().Path() + "." + n.Obj().Name()
	}
	return t.String()
}

// layoutCall: layprefix(p, "Member") / laysuffix(q, "Member") used in loop invariants.
func (e *CEnv) layoutCall(name string, args []*CExpr) (Value, bool) {
	switch name {
	case "layprefix", "laysuffix", "layprefixL":
	default:
		return nil, false
	}
	if len(args) != 2 || args[1].Kind != "str" {
		cfail("%s(record, \"Member\")", name)
	}
	v := e.eval(args[0])
	var tname string
	switch p := v.(type) {
	case *PtrVal:
		tname = typeNameFull(p.Obj.Typ)
	case *StructVal:
		tname = typeNameFull(p.Typ)
	}
	lt := e.x.W.Layouts[tname]
	if lt == nil {
		cfail("%s: no layout table for %s", name, tname)
	}
	idx := lt.fieldIndex(args[1].Str)
	if idx < 0 {
		cfail("%s: no member %s in the layout of %s", name, args[1].Str, tname)
	}
	n := e.clone()
	n.vars["__r"] = v
	var text string
	switch name {
	case "layprefix":
		// what the writer holds before the member is written: header (without the length prefix when it is
		// filled in by BytesWithLength) and the preceding fields
		text = lt.layoutText("__r", "int(__r.Header.TotalLength)", lt.LenMode == "field", -1, idx)
	case "laysuffix":
		text = strings.ReplaceAll(lt.layoutText("__r", "", false, idx+1, len(lt.Fields)), "ORD", "gord")
	}
	ex, err := ParseCExpr(text)
	if err != nil {
		cfail("%s: %v", name, err)
	}
	return n.eval(ex), true
}

// memberIsByteSlice: is member m of the receiver's struct a []byte (strings are immutable and need no ownership clause).
// repOwned: the list a decoder stores for a repeated member is newly allocated (or has no backing memory at all)
// whenever the object it decodes into brought no capacity of its own.
func repOwned(r, m string) string {
	return fmt.Sprintf("old(cap(%s.%s)) == 0 ==> fresh(%s.%s) || cap(%s.%s) == 0", r, m, r, m, r, m)
}

func memberIsByteSlice(fn *ssa.Function, m string) bool {
	pt, ok := fn.Params[0].Type().(*types.Pointer)
	if !ok {
		return false
	}
	st, ok := pt.Elem().Underlying().(*types.Struct)
	if !ok {
		return false
	}
	for i := 0; i < st.NumFields(); i++ {
		if st.Field(i).Name() == m {
			return isSliceOfByte(st.Field(i).Type())
		}
	}
	return false
}
