package main

// Symbolic dynamic types of interface values.
//
// A symbolic interface value is an Int identity `s` (0 = nil). Its dynamic type is dyn.tag(s) (a small integer per named
// type, see tagNum) and, for dynamic types whose underlying type is an integer, its value is dyn.int(s). A concrete
// value v of such a type T boxed into an interface denotes iface.T(v), with dyn.tag(iface.T(v)) == tag(T) and
// dyn.int(iface.T(v)) == v. Method calls on a symbolic interface are dispatched over the repository's types that
// implement the interface; that the dynamic type is one of them is an obligation at the call.

import (
	"fmt"
	"go/types"
	"sort"
	"strings"

	"golang.org/x/tools/go/ssa"
)

func (w *World) tagNum(name string) *Term {
	if w.tags == nil {
		w.tags = map[string]int{}
	}
	n, ok := w.tags[name]
	if !ok {
		// a number that depends on the name only (not on which tags were asked for before): query text must not depend on
		// the order of generation. FNV-1a, 40 bits; a collision between two names in use is checked and made distinct.
		h := uint64(14695981039346656037)
		for i := 0; i < len(name); i++ {
			h ^= uint64(name[i])
			h *= 1099511628211
		}
		n = int(h&(1<<40-1)) + 1
		for used := true; used; {
			used = false
			for _, v := range w.tags {
				if v == n {
					used = true
					n++
				}
			}
		}
		w.tags[name] = n
	}
	return IntLit(int64(n))
}

func dynTag(s *Term) *Term { return App("dyn.tag", SInt, s) }
func dynInt(s *Term) *Term { return App("dyn.int", SInt, s) }

func isIntKinded(t types.Type) bool {
	b, ok := under(t).(*types.Basic)
	return ok && b.Info()&types.IsInteger != 0
}

// ifaceTerm: the identity of the concrete value v of int-kinded type T boxed into an interface, with its defining facts.
func (x *Exec) ifaceTerm(st *State, T types.Type, v *Term) *Term {
	if v.S.IsBV() {
		v = BV2Int(v)
	}
	t := App("iface."+sanitize(T.String()), SInt, v)
	if !x.ifaceFacts[t] {
		if x.ifaceFacts == nil {
			x.ifaceFacts = map[*Term]bool{}
		}
		x.ifaceFacts[t] = true
		f := And(Ne(t, IntLit(0)), Eq(dynTag(t), x.W.tagNum(typeName(T))), Eq(dynInt(t), v))
		x.gfacts = append(x.gfacts, f)
	}
	return t
}

// symOf: an Int identity for any interface value (concrete int-kinded values get their iface.T term).
func (x *Exec) symOf(st *State, iv *IfaceVal) (*Term, bool) {
	if iv.Dyn == nil {
		if iv.Sym != nil {
			return iv.Sym, true
		}
		return IntLit(0), true
	}
	if isIntKinded(iv.Dyn) {
		if t, ok := iv.V.(*Term); ok {
			return x.ifaceTerm(st, iv.Dyn, t), true
		}
	}
	return nil, false
}

// dynIs: the dynamic type of iv is T.
func (x *Exec) dynIs(st *State, iv *IfaceVal, T types.Type) *Term {
	if iv.Dyn != nil {
		return BoolLit(types.Identical(iv.Dyn, T))
	}
	if iv.Sym == nil {
		return TFalse
	}
	return And(Ne(iv.Sym, IntLit(0)), Eq(dynTag(iv.Sym), x.W.tagNum(typeName(T))))
}

// dynValue: the value of a symbolic interface known (assumed by the caller) to hold a T.
func (x *Exec) dynValue(st *State, iv *IfaceVal, T types.Type) Value {
	if isIntKinded(T) {
		st.Assume(Implies(x.dynIs(st, iv, T), Eq(iv.Sym, x.ifaceTerm(st, T, dynInt(iv.Sym)))))
		var v *Term = dynInt(iv.Sym)
		if bits, ok := x.bvOf(T); ok {
			return Int2BV(v, bits)
		}
		// range of the Go type
		if lo, hi := intRange(T); lo != nil {
			st.Assume(Implies(x.dynIs(st, iv, T), And(Le(IntBig(lo), v), Le(v, IntBig(hi)))))
		}
		return v
	}
	return x.freshValue(st, T, "dyn", false)
}

// implementers: the repository's named non-interface types whose method set (value receiver) satisfies iface.
func (w *World) implementers(iface *types.Interface) []types.Type {
	var out []types.Type
	for _, p := range w.Pkgs {
		if !strings.HasPrefix(p.PkgPath, modPath) {
			continue
		}
		sc := p.Types.Scope()
		names := sc.Names()
		sort.Strings(names)
		for _, n := range names {
			tn, ok := sc.Lookup(n).(*types.TypeName)
			if !ok || tn.IsAlias() {
				continue
			}
			t := tn.Type()
			if _, isI := t.Underlying().(*types.Interface); isI {
				continue
			}
			if types.Implements(t, iface) {
				out = append(out, t)
			}
		}
	}
	return out
}

// invokeDispatch: method call on a symbolic interface value, dispatched over the repository's implementers.
func (x *Exec) invokeDispatch(st *State, fr *Frame, in ssa.Instruction, c *ssa.CallCommon, iv *IfaceVal, args []Value, k cont) bool {
	it, ok := under(c.Value.Type()).(*types.Interface)
	if !ok || iv.Sym == nil {
		return false
	}
	// only interfaces declared in the repository: a value of `error`, io.Reader, ... usually holds a foreign type
	if n, ok := c.Value.Type().(*types.Named); !ok || n.Obj().Pkg() == nil || !strings.HasPrefix(n.Obj().Pkg().Path(), modPath) {
		return false
	}
	cands := x.W.implementers(it)
	if len(cands) == 0 {
		return false
	}
	var any []*Term
	for _, T := range cands {
		any = append(any, x.dynIs(st, iv, T))
	}
	x.safety(st, "dyntype", in, Or(any...), fmt.Sprintf("dynamic type of the %s value is one of the repository's %d implementations", c.Value.Type().String(), len(cands)))
	for i, T := range cands {
		ms := x.W.Prog.MethodSets.MethodSet(T)
		sel := ms.Lookup(c.Method.Pkg(), c.Method.Name())
		if sel == nil {
			continue
		}
		callee := x.W.Prog.MethodValue(sel)
		st2 := st.Clone()
		st2.Assume(any[i])
		recv := x.dynValue(st2, iv, T)
		x.callFunc(st2, fr, in, callee, append([]Value{recv}, args...), nil, k)
	}
	return true
}
