package main

// Assumed model of codec.ConnReader (from its interface comment, A-CONN) and of io.ReadFull over it:
// ghost `connbuf` (octets buffered: what Peek/Size/Discard see) and ghost `connstream` (the octets a blocking read
// will deliver, in order). The two views are used by different functions and are not related to each other here.

import (
	"golang.org/x/tools/go/ssa"
)

func (x *Exec) connState(st *State, iv *IfaceVal) *Obj {
	key := iv.Sym
	if o, ok := x.conns[key]; ok {
		return o
	}
	o := newObj(ObjCell, nil, "conn", false)
	x.conns[key] = o
	x.lazy[o] = &StructVal{Fields: []Value{Fresh("conn.buf", SBytes), Fresh("conn.stream", SBytes)}}
	return o
}

func (x *Exec) connGet(st *State, iv *IfaceVal, i int) *Term {
	o := x.connState(st, iv)
	v, _ := x.heapGet(st, o)
	return v.(*StructVal).Fields[i].(*Term)
}

func (x *Exec) connSet(st *State, iv *IfaceVal, i int, t *Term) {
	o := x.connState(st, iv)
	v, _ := x.heapGet(st, o)
	sv := v.(*StructVal)
	n := &StructVal{Fields: append([]Value(nil), sv.Fields...)}
	n.Fields[i] = t
	st.Heap[o] = n
}

func init() {
	assumptionText["A-CONN"] = "codec.ConnReader behaves as its interface comment says: Peek(n) returns the first min(n, Size()) buffered octets (error iff fewer than n), Size() the buffered count, Discard(n) with 0 <= n <= Size() succeeds and drops exactly n; io.ReadFull either fills its buffer with the next octets of the stream and consumes exactly those, or returns an error having consumed at most len(buf); it fails only when the stream ends early or the transport fails (nofault(c) names the absence of transport failures)"
	const K = "github.com/hujm2023/go-sms-protocol/codec.ConnReader."
	regI(K+"Peek", func(x *Exec, st *State, fr *Frame, in ssa.Instruction, recv *IfaceVal, args []Value) []Value {
		x.assume("A-CONN")
		n := x.toInt(args[0].(*Term))
		buf := x.connGet(st, recv, 0)
		m := Ite(Lt(n, IntLit(0)), IntLit(0), Min(n, Len(buf)))
		r := Fresh("peek", SBytes)
		st.Assume(Eq(r, Take(buf, m)))
		st.Assume(Eq(App("len", SInt, r), m))
		s := x.newByteSlice(st, r, "peeked")
		s.Reg.Fresh = false // a view of the connection's buffer
		s.Reg.Pool = true
		ok := And(Le(IntLit(0), n), Le(n, Len(buf)))
		return []Value{s, x.condErr(st, "peek", ok, nil)}
	})
	regI(K+"Size", func(x *Exec, st *State, fr *Frame, in ssa.Instruction, recv *IfaceVal, args []Value) []Value {
		x.assume("A-CONN")
		return one(Len(x.connGet(st, recv, 0)))
	})
	regI(K+"Discard", func(x *Exec, st *State, fr *Frame, in ssa.Instruction, recv *IfaceVal, args []Value) []Value {
		x.assume("A-CONN")
		n := x.toInt(args[0].(*Term))
		buf := x.connGet(st, recv, 0)
		ok := And(Le(IntLit(0), n), Le(n, Len(buf)))
		k := Fresh("discarded", SInt)
		st.Assume(Implies(ok, Eq(k, n)))
		st.Assume(And(Le(IntLit(0), k), Le(k, Max(n, IntLit(0)))))
		nb := Fresh("conn.buf", SBytes)
		st.Assume(Implies(ok, Eq(nb, Drop(buf, n))))
		x.connSet(st, recv, 0, nb)
		return []Value{k, x.condErr(st, "discard", ok, nil)}
	})
	reg("io.ReadFull", func(x *Exec, st *State, fr *Frame, in ssa.Instruction, callee *ssa.Function, args []Value) []Value {
		x.assume("A-CONN")
		r, ok := args[0].(*IfaceVal)
		if !ok || r.Dyn != nil || r.Sym == nil {
			panic(unsupported("io.ReadFull from a reader other than an abstract ConnReader"))
		}
		b := args[1].(*SliceVal)
		s := x.connGet(st, r, 1)
		good := Fresh("readfull.ok", SBool)
		st.Assume(Implies(good, Ge(Len(s), b.Len)))
		// a read fails only because the stream ends early or the transport fails; conn.nofault names "no transport failure"
		st.Assume(Implies(And(App("conn.nofault", SBool, r.Sym), Ge(Len(s), b.Len)), good))
		k := Fresh("readfull.n", SInt)
		st.Assume(And(Le(IntLit(0), k), Le(k, b.Len), Implies(good, Eq(k, b.Len))))
		// on success the buffer holds the next len(b) octets; on failure its first k octets are overwritten with something
		got := Fresh("readfull.data", SBytes)
		st.Assume(Eq(App("len", SInt, got), k))
		st.Assume(Implies(good, Eq(got, Take(s, b.Len))))
		x.writeBytes(st, b, got, k)
		ns := Fresh("conn.stream", SBytes)
		st.Assume(Implies(good, Eq(ns, Drop(s, b.Len))))
		x.connSet(st, r, 1, ns)
		return []Value{k, x.condErr(st, "readfull", good, nil)}
	})
}
