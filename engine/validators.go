package main

import (
	"bytes"
	"context"
	"encoding/json"
	"fmt"
	"os"
	"os/exec"
	"path/filepath"
	"regexp"
	"sort"
	"strings"
	"time"
)

// Bounded validators of assumed models (thorough tier only): /verif/validators/validators_test.go is injected into the
// root package of the tree under check with `go test -overlay` and the tests matching the assumptions the property's
// obligations relied on are run. They are BOUNDED checks of assumptions, reported as such, never counted as proved.
var validatorOf = map[string]string{
	"A-CEIL": "CEIL", "A-BIN": "BIN", "A-BUF": "BUF", "A-HEX": "HEX", "A-FMT10": "FMT", "A-FMT2": "FMT", "A-ATOI": "FMT",
	"A-FLOAT": "FLOAT", "A-TIMEPKG": "TIMEPKG", "A-POOL": "POOL",
}

// assumptions that live in lemma hypotheses / contract prose rather than in an intrinsic
var validatorOfProperty = map[string][]string{"C18": {"TOK"}}

var validatorRe = regexp.MustCompile(`VALIDATOR (\S+) OK evaluations=(\d+) bound=(.*)`)

// standInOf: trusted (assumed) contracts of repository functions that are thin wrappers over external transformers, and
// the bounded validator that stands in for a proof of them. A failure of a stand-in is a property violation with a
// concrete failing input (the validator runs the real functions), not an engine fault.
var standInOf = map[string]string{
	"(*BatchDataCodingEncoder).Build": "BUILD",
	"datacoding.(UCS2).":              "XTEXT", "datacoding.(Latin1).": "XTEXT", "datacoding.(GB18030).": "XTEXT", "datacoding.(GSM7Unpacked).": "XTEXT",
}

// standInPartial: functions that ARE under contract, but only for safety, bounds and termination; what they compute is
// covered by a bounded stand-in.
type partialStandIn struct {
	Validator string
	Props     []string // the properties whose check runs it
	What      string
}

var standInPartial = map[string]partialStandIn{
	"gsm7encoding.(*gsm7Encoder).Transform": {"AGREE", []string{"C08", "C05"}, "functional part"},
	"gsm7encoding.(*gsm7Decoder).Transform": {"AGREE", []string{"C08", "C05"}, "functional part"},
	// both string functions are proved against the Sprintf / Sscanf models; that Sscanf inverts Sprintf on in-range fields is
	// the hypothesis of lemma msgid_string_roundtrip (A-SCAN), which this bounded check exercises on the real functions
	"cmpp.MsgIDString2Uint64": {"MSGID", []string{"C17"}, "inverse law assumed of fmt.Sscanf, hypothesis of lemma msgid_string_roundtrip"},
}

// standInOfProperty: bounded stand-ins that belong to a property as a whole rather than to one trusted function.
var standInOfProperty = map[string][]partialStandIn{
	// octet slices carry no capacity in the model, so that the parts of a splitter's [][]byte result do not overlap in
	// memory (up to their capacities) is not a clause there (seeded change s16_C12 showed the gap)
	"C12": {{"SPLITOWN", []string{"C12"}, "EncodeCMPPContentAndSplit / EncodeSMPPContentAndSplit (the parts of the [][]byte result own disjoint memory up to their capacities: not expressible in the model, bounded check only)"}},
}

var validatorFailRe = regexp.MustCompile(`VALIDATOR-FAIL (.*)`)

// runStandIns runs the named validators in quick or full mode; returns the evidence rows and the failure lines.
func runStandIns(repo, root string, names []string, quick bool) ([]map[string]interface{}, []string, error) {
	sort.Strings(names)
	ov, _ := json.Marshal(map[string]interface{}{"Replace": map[string]string{
		filepath.Join(repo, "zz_verif_validators_test.go"): filepath.Join(root, "validators", "validators_test.go")}})
	f, err := os.CreateTemp(scratch, "ovs-*.json")
	if err != nil {
		return nil, nil, err
	}
	f.Write(ov)
	f.Close()
	ctx, cancel := context.WithTimeout(context.Background(), 15*time.Minute)
	defer cancel()
	cmd := exec.CommandContext(ctx, "go", "test", "-overlay", f.Name(), "-vet=off", "-count=1", "-timeout", "800s", "-v",
		"-run", "^TestValidator_("+strings.Join(names, "|")+")$", ".")
	cmd.Dir = repo
	cmd.Env = append(os.Environ(), "GOFLAGS=-mod=mod", "GOPROXY=off", "GOSUMDB=off", "GOTOOLCHAIN=local")
	if quick {
		cmd.Env = append(cmd.Env, "VERIF_VALIDATOR_QUICK=1")
	}
	var buf bytes.Buffer
	cmd.Stdout = &buf
	cmd.Stderr = &buf
	runErr := cmd.Run()
	text := buf.String()
	var out []map[string]interface{}
	for _, m := range validatorRe.FindAllStringSubmatch(text, -1) {
		out = append(out, map[string]interface{}{"stands_in_for": m[1], "status": "held on everything evaluated (BOUNDED stand-in for what is assumed, not a proof)", "evaluations": m[2], "bound": strings.TrimSpace(m[3])})
	}
	var fails []string
	for _, m := range validatorFailRe.FindAllStringSubmatch(text, -1) {
		fails = append(fails, strings.TrimSpace(m[1]))
	}
	if len(fails) == 0 && (runErr != nil || len(out) == 0) {
		return out, nil, fmt.Errorf("stand-in validator run failed to build or run: %s", lastLines(text, 15))
	}
	return out, fails, nil
}

func runValidators(repo, root, prop string, assumed map[string]bool) ([]map[string]interface{}, error) {
	set := map[string]bool{}
	for a := range assumed {
		id := a
		if i := strings.Index(a, ":"); i > 0 {
			id = a[:i]
		}
		if v, ok := validatorOf[id]; ok {
			set[v] = true
		}
	}
	for _, v := range validatorOfProperty[prop] {
		set[v] = true
	}
	if len(set) == 0 {
		return nil, nil
	}
	var names []string
	for v := range set {
		names = append(names, v)
	}
	sort.Strings(names)
	ov, _ := json.Marshal(map[string]interface{}{"Replace": map[string]string{
		filepath.Join(repo, "zz_verif_validators_test.go"): filepath.Join(root, "validators", "validators_test.go")}})
	f, err := os.CreateTemp(scratch, "ovv-*.json")
	if err != nil {
		return nil, err
	}
	f.Write(ov)
	f.Close()
	ctx, cancel := context.WithTimeout(context.Background(), 15*time.Minute)
	defer cancel()
	t0 := time.Now()
	cmd := exec.CommandContext(ctx, "go", "test", "-overlay", f.Name(), "-vet=off", "-count=1", "-timeout", "800s", "-v",
		"-run", "^TestValidator_("+strings.Join(names, "|")+")$", ".")
	cmd.Dir = repo
	cmd.Env = append(os.Environ(), "GOFLAGS=-mod=mod", "GOPROXY=off", "GOSUMDB=off", "GOTOOLCHAIN=local")
	var buf bytes.Buffer
	cmd.Stdout = &buf
	cmd.Stderr = &buf
	runErr := cmd.Run()
	text := buf.String()
	var out []map[string]interface{}
	for _, m := range validatorRe.FindAllStringSubmatch(text, -1) {
		out = append(out, map[string]interface{}{"assumption": m[1], "status": "held on everything evaluated (BOUNDED check of an assumption, not a proof)", "evaluations": m[2], "bound": strings.TrimSpace(m[3])})
	}
	if runErr != nil || strings.Contains(text, "--- FAIL") || len(out) == 0 {
		return out, fmt.Errorf("validator run failed (an assumed model is wrong, or the harness did not build): %s", lastLines(text, 15))
	}
	out = append(out, map[string]interface{}{"validators_run": names, "seconds": time.Since(t0).Seconds()})
	return out, nil
}
