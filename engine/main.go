package main

import (
	"flag"
	"fmt"
	"os"
	"path/filepath"
	"sort"
	"strings"
	"time"
)

func rootDir() string {
	if r := os.Getenv("VERIF_ROOT"); r != "" {
		return r
	}
	exe, err := os.Executable()
	if err == nil {
		return filepath.Dir(filepath.Dir(exe))
	}
	return "/verif"
}

func main() {
	if len(os.Args) < 2 {
		fmt.Fprintln(os.Stderr, "usage: govc <verify|check|theory|selftest> ...")
		os.Exit(2)
	}
	root := rootDir()
	repo := os.Getenv("VERIF_REPO")
	if repo == "" {
		repo = "/repo"
	}
	var err error
	scratch, err = os.MkdirTemp(tmpBase(), "govc.")
	if err != nil {
		fmt.Fprintln(os.Stderr, err)
		os.Exit(2)
	}
	code := 0
	func() {
		defer os.RemoveAll(scratch)
		if err := loadTheories(root); err != nil {
			fmt.Fprintln(os.Stderr, "theory:", err)
			code = 2
			return
		}
		switch os.Args[1] {
		case "verify":
			code = cmdVerify(repo, root, os.Args[2:])
		case "check":
			code = cmdCheck(repo, root, os.Args[2:])
		case "replay":
			code = cmdReplay(repo, root, os.Args[2:])
		case "locals":
			code = cmdLocals(repo, root)
		case "witness":
			code = cmdWitness(repo, root)
		case "theory":
			code = cmdTheory(root, os.Args[2:])
		default:
			fmt.Fprintln(os.Stderr, "unknown command", os.Args[1])
			code = 2
		}
	}()
	os.Exit(code)
}

func tmpBase() string {
	if t := os.Getenv("VERIF_TMP"); t != "" {
		return t
	}
	return "/var/tmp"
}

var allSolvers = []string{"z3", "z3new", "cvc5"}

// cmdVerify: developer command — verify the functions whose key contains the given substring(s).
func cmdVerify(repo, root string, args []string) int {
	fs := flag.NewFlagSet("verify", flag.ExitOnError)
	timeout := fs.Int("t", 10, "solver timeout (s)")
	verbose := fs.Bool("v", false, "verbose")
	dump := fs.String("dump", "", "dump the SMT query of the obligation with this name")
	fs.Parse(args)
	t0 := time.Now()
	w, err := LoadWorld(repo, root)
	if err != nil {
		fmt.Fprintln(os.Stderr, "load:", err)
		return 2
	}
	fmt.Printf("loaded in %v: %d contracts, %d pure defs\n", time.Since(t0).Round(time.Millisecond), len(w.Specs), len(w.Pures))
	var keys []string
	for k := range w.Specs {
		if len(fs.Args()) == 0 {
			keys = append(keys, k)
			continue
		}
		for _, a := range fs.Args() {
			if strings.Contains(k, a) {
				keys = append(keys, k)
				break
			}
		}
	}
	sort.Strings(keys)
	bad := 0
	for _, k := range keys {
		spec := w.Specs[k]
		t1 := time.Now()
		rep := w.VerifyFunc(spec)
		gen := time.Since(t1)
		dischargeAll(rep.Obls, time.Duration(*timeout)*time.Second, 8, allSolvers)
		groups := groupObls(rep.Obls)
		ok, fail := 0, 0
		for _, g := range groups {
			if s := g.Status(); s == "unsat" {
				ok++
			} else {
				fail++
			}
		}
		fmt.Printf("%-60s paths=%d returns=%d obligations=%d ok=%d FAIL=%d errors=%d gen=%v total=%v\n", shortKey(k), rep.Paths, rep.Returns, len(groups), ok, fail, len(rep.Errors), gen.Round(time.Millisecond), time.Since(t1).Round(time.Millisecond))
		for _, e := range rep.Errors {
			fmt.Println("   ERROR:", e)
			bad++
		}
		for _, g := range groups {
			s := g.Status()
			if s != "unsat" || *verbose {
				var mx int64
				sv := ""
				for _, o := range g.Instances {
					if o.TimeMS > mx {
						mx, sv = o.TimeMS, o.Solver
					}
				}
				fmt.Printf("   %-8s %s [%s %dms] -- %s\n", s, g.Name, sv, mx, g.Text)
				if s != "unsat" {
					bad++
					for _, o := range g.Instances {
						if o.Result != "unsat" && o.Result != "trivial" {
							fmt.Printf("            path %d: %s %s\n", o.Path, o.Result, firstLine(o.Model))
							if *verbose && len(o.Model) < 3000 {
								fmt.Println(o.Model)
							}
							break
						}
					}
				}
			}
			if *dump != "" && strings.Contains(g.Name, *dump) {
				for i, o := range g.Instances {
					if o.Result == "trivial" {
						continue
					}
					fn := fmt.Sprintf("/var/tmp/dump-%d.smt2", i)
					os.WriteFile(fn, []byte(solverHeader("z3", false)+buildQuery(o, nil)), 0o644)
					fmt.Println("   dumped", fn, o.Result)
				}
			}
		}
		// vacuity
		dischargeAll(rep.Vacuity, 3*time.Second, 8, []string{"z3"})
		for _, v := range rep.Vacuity {
			if v.Result == "unsat" && v.Kind == "vacuity" {
				fmt.Println("   VACUOUS:", v.Name)
				bad++
			}
		}
	}
	for _, l := range w.Lemmas {
		match := len(fs.Args()) == 0
		for _, a := range fs.Args() {
			if strings.Contains(l.Pkg+".lemma."+l.Name, a) {
				match = true
			}
		}
		if !match {
			continue
		}
		rep := w.VerifyLemma(l)
		dischargeAll(rep.Obls, time.Duration(*timeout)*time.Second, 8, allSolvers)
		for _, e := range rep.Errors {
			fmt.Println("   ERROR:", e)
			bad++
		}
		for _, o := range rep.Obls {
			if o.Result != "unsat" && o.Result != "trivial" {
				bad++
			}
			if o.Result != "unsat" || *verbose {
				fmt.Printf("   %-8s %s -- %s [%s %dms]\n", o.Result, o.Name, o.Text, o.Solver, o.TimeMS)
			}
			if *dump != "" && strings.Contains(o.Name, *dump) {
				fn := fmt.Sprintf("/var/tmp/dump-%s.smt2", sanitize(o.Name))
				os.WriteFile(fn, []byte(solverHeader("z3", false)+buildQuery(o, nil)), 0o644)
				fmt.Println("   dumped", fn)
			}
		}
		fmt.Printf("lemma %-50s obligations=%d\n", shortKey(rep.Key), len(rep.Obls))
	}
	if bad > 0 {
		return 1
	}
	return 0
}

func firstLine(s string) string {
	if i := strings.Index(s, "\n"); i >= 0 {
		return s[:i]
	}
	return s
}

// cmdTheory proves every T1 lemma from T0 + observer definitions.
func cmdTheory(root string, args []string) int {
	bad := 0
	th := theories["T0"]
	res := proveLemmas(th, 10*time.Second)
	for i, l := range t1Lemmas {
		if res[i].Result != "unsat" {
			bad++
		}
		fmt.Printf("%-12s %-8s %s %dms\n", l.Name, res[i].Result, res[i].Solver, res[i].MS)
	}
	if bad > 0 {
		return 1
	}
	return 0
}
