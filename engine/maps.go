package main

// Maps (domain array + one value array per leaf), map/string iteration.

import (
	"fmt"
	"go/types"
	"math/big"

	"golang.org/x/tools/go/ssa"
)

type IterVal struct {
	Map  *Obj  // nil for string iteration
	Str  *Term // string being iterated
	Pos  *Obj  // cell holding the position (Int)
	Ord  *Term // Array Int K: arbitrary enumeration of the keys
	KeyT types.Type
}

func (x *Exec) keyTerm(v Value, ks *Sort) *Term {
	t := v.(*Term)
	if t.S != ks {
		if ks.IsBV() && t.S == SInt {
			return Int2BV(t, ks.W)
		}
		if ks == SInt && t.S.IsBV() {
			return BV2Int(t)
		}
	}
	return t
}

func (x *Exec) mapContent(st *State, m *MapVal) *MapContent { return x.mapC(st, m.Obj) }

// flatten a value into map leaves
func (x *Exec) flatten(st *State, v Value, t types.Type, prefix string, out map[string]*Term) {
	switch u := under(t).(type) {
	case *types.Struct:
		sv := v.(*StructVal)
		for i := 0; i < u.NumFields(); i++ {
			x.flatten(st, sv.Fields[i], u.Field(i).Type(), prefix+"."+u.Field(i).Name(), out)
		}
	default:
		out[prefix] = x.toElem(st, v, t)
	}
}

func (x *Exec) unflatten(st *State, t types.Type, prefix string, get func(path string, lt types.Type) *Term) Value {
	switch u := under(t).(type) {
	case *types.Struct:
		sv := &StructVal{Typ: t, Fields: make([]Value, u.NumFields())}
		for i := 0; i < u.NumFields(); i++ {
			sv.Fields[i] = x.unflatten(st, u.Field(i).Type(), prefix+"."+u.Field(i).Name(), get)
		}
		return sv
	default:
		return x.fromElem(st, get(prefix, t), t)
	}
}

func (x *Exec) mapGet(st *State, m *MapVal, k *Term) Value {
	mc := x.mapContent(st, m)
	mt := under(m.Obj.Typ).(*types.Map)
	k = x.keyTerm(k, x.elemSort(mt.Key()))
	return x.unflatten(st, mt.Elem(), "", func(path string, lt types.Type) *Term {
		return Select(mc.Leaves[path], k)
	})
}

func (x *Exec) zeroElem(t types.Type) *Term {
	switch es := x.elemSort(t); {
	case es == SInt:
		return IntLit(0)
	case es == SBytes:
		return TEps
	case es == SBool:
		return TFalse
	case es.IsBV():
		return BVLit(big.NewInt(0), es.W)
	}
	panic(unsupported("zero element of " + t.String()))
}

func (x *Exec) mapUpdate(st *State, fr *Frame, v *ssa.MapUpdate) {
	m := x.val(st, fr, v.Map).(*MapVal)
	mc := x.mapContent(st, m)
	mt := under(m.Obj.Typ).(*types.Map)
	x.safety(st, "nilmap", v, Not(mc.Nil), "assignment to entry in nil map")
	k := x.keyTerm(x.val(st, fr, v.Key), x.elemSort(mt.Key()))
	leaves := map[string]*Term{}
	x.flatten(st, x.val(st, fr, v.Value), mt.Elem(), "", leaves)
	nm := &MapContent{Dom: Store(mc.Dom, k, TTrue), Leaves: map[string]*Term{}, Nil: mc.Nil}
	for p, arr := range mc.Leaves {
		nm.Leaves[p] = Store(arr, k, leaves[p])
	}
	nm.Card = Add(mc.Card, Ite(Select(mc.Dom, k), IntLit(0), IntLit(1)))
	x.countAllocN(st, IntLit(64))
	st.Heap[m.Obj] = nm
}

func (x *Exec) lookup(st *State, fr *Frame, v *ssa.Lookup) Value {
	base := x.val(st, fr, v.X)
	switch b := base.(type) {
	case *MapVal:
		mc := x.mapContent(st, b)
		mt := under(b.Obj.Typ).(*types.Map)
		k := x.keyTerm(x.val(st, fr, v.Index), x.elemSort(mt.Key()))
		in := And(Not(mc.Nil), Select(mc.Dom, k))
		val := x.unflatten(st, mt.Elem(), "", func(path string, lt types.Type) *Term {
			return Ite(in, Select(mc.Leaves[path], k), x.zeroElem(lt))
		})
		if v.CommaOk {
			return &TupleVal{Vs: []Value{val, in}}
		}
		return val
	case *Term: // string index
		idx := x.toInt(x.val(st, fr, v.Index).(*Term))
		x.safety(st, "index", v, And(Le(IntLit(0), idx), Lt(idx, Len(b))), "string index in range")
		r := At(b, idx)
		if x.bv {
			return Int2BV(r, 8)
		}
		return r
	}
	panic(unsupported(fmt.Sprintf("Lookup on %T", base)))
}

func (x *Exec) rangeInit(st *State, fr *Frame, v *ssa.Range) Value {
	base := x.val(st, fr, v.X)
	pos := newObj(ObjCell, types.Typ[types.Int], "iterpos", true)
	st.Heap[pos] = IntLit(0)
	switch b := base.(type) {
	case *MapVal:
		mc := x.mapContent(st, b)
		mt := under(b.Obj.Typ).(*types.Map)
		ks := x.elemSort(mt.Key())
		ord := Fresh("ord", SArr(SInt, ks))
		// ord enumerates the domain: ord[0..card) are pairwise distinct members, every member occurs
		i := Const(fmt.Sprintf("i!q%d", x.nextQ()), SInt)
		j := Const(fmt.Sprintf("j!q%d", x.nextQ()), SInt)
		st.Assume(Forall([]*Term{i}, Implies(And(Le(IntLit(0), i), Lt(i, mc.Card)), Select(mc.Dom, Select(ord, i))), Select(ord, i)))
		st.Assume(Forall([]*Term{i, j}, Implies(And(Le(IntLit(0), i), Lt(i, j), Lt(j, mc.Card)), Ne(Select(ord, i), Select(ord, j))), Select(ord, i), Select(ord, j)))
		idx := App("ordidx."+ord.Name, SInt, Const("k!dummy", ks))
		_ = idx
		k := Const(fmt.Sprintf("k!q%d", x.nextQ()), ks)
		inv := App("ordinv."+ord.Name, SInt, k)
		st.Assume(Forall([]*Term{k}, Implies(Select(mc.Dom, k), And(Le(IntLit(0), inv), Lt(inv, mc.Card), Eq(Select(ord, inv), k))), Select(mc.Dom, k)))
		return &IterVal{Map: b.Obj, Pos: pos, Ord: ord, KeyT: mt.Key()}
	case *Term:
		return &IterVal{Str: b, Pos: pos}
	}
	panic(unsupported(fmt.Sprintf("range over %T", base)))
}

func (x *Exec) rangeNext(st *State, fr *Frame, v *ssa.Next) Value {
	it := x.val(st, fr, v.Iter).(*IterVal)
	i := st.Heap[it.Pos].(*Term)
	if it.Map != nil {
		mc := x.mapC(st, it.Map)
		mt := under(it.Map.Typ).(*types.Map)
		ok := Lt(i, mc.Card)
		k := Select(it.Ord, i)
		val := x.unflatten(st, mt.Elem(), "", func(path string, lt types.Type) *Term {
			return Select(mc.Leaves[path], k)
		})
		st.Heap[it.Pos] = Add(i, IntLit(1))
		return &TupleVal{Vs: []Value{ok, x.fromElem(st, k, mt.Key()), val}}
	}
	// string: (ok, byte index, rune)
	s := it.Str
	ok := Lt(i, Len(s))
	r := App("runeAt", SInt, s, i)
	w := App("runeLen", SInt, s, i)
	st.Assume(Implies(ok, And(Le(IntLit(1), w), Le(w, IntLit(4)), Le(Add(i, w), Len(s)))))
	st.Assume(Implies(ok, And(Le(IntLit(0), r), Le(r, IntLit(0x10FFFF)))))
	// ASCII bytes decode to themselves with width 1; multi-byte sequences decode to >= 0x80 (or U+FFFD)
	st.Assume(Implies(And(ok, Lt(At(s, i), IntLit(128))), And(Eq(w, IntLit(1)), Eq(r, At(s, i)))))
	st.Assume(Implies(And(ok, Ge(At(s, i), IntLit(128))), Ge(r, IntLit(128))))
	st.Heap[it.Pos] = Ite(ok, Add(i, w), i)
	var kv, rv Value = i, r
	if x.bv {
		kv, rv = Int2BV(i, 64), Int2BV(r, 32)
	}
	return &TupleVal{Vs: []Value{ok, kv, rv}}
}
