package main

// Maps (domain array + one value array per leaf), map/string iteration.

import (
	"fmt"
	"go/types"
	"math/big"

	"golang.org/x/tools/go/ssa"
)

type IterVal struct {
	Map  *Obj  // nil for string iteration
	Str  *Term // string being iterated
	Pos  *Obj  // cell holding the position (Int)
	Ord  *Term // Array Int K: arbitrary enumeration of the keys
	KeyT types.Type
}

func (x *Exec) keyTerm(v Value, ks *Sort) *Term {
	t := v.(*Term)
	if t.S != ks {
		if ks.IsBV() && t.S == SInt {
			return Int2BV(t, ks.W)
		}
		if ks == SInt && t.S.IsBV() {
			return BV2Int(t)
		}
	}
	return t
}

func (x *Exec) mapContent(st *State, m *MapVal) *MapContent { return x.mapC(st, m.Obj) }

// flatten a value into map leaves
func (x *Exec) flatten(st *State, v Value, t types.Type, prefix string, out map[string]*Term) {
	switch u := under(t).(type) {
	case *types.Struct:
		sv := v.(*StructVal)
		for i := 0; i < u.NumFields(); i++ {
			x.flatten(st, sv.Fields[i], u.Field(i).Type(), prefix+"."+u.Field(i).Name(), out)
		}
	default:
		out[prefix] = x.toElem(st, v, t)
	}
}

func (x *Exec) unflatten(st *State, t types.Type, prefix string, get func(path string, lt types.Type) *Term) Value {
	switch u := under(t).(type) {
	case *types.Struct:
		sv := &StructVal{Typ: t, Fields: make([]Value, u.NumFields())}
		for i := 0; i < u.NumFields(); i++ {
			sv.Fields[i] = x.unflatten(st, u.Field(i).Type(), prefix+"."+u.Field(i).Name(), get)
		}
		return sv
	default:
		e := get(prefix, t)
		if e.S == SInt {
			// typing invariant of an integer-typed map value
			if lo, hi := intRange(t); lo != nil {
				st.Assume(And(Le(IntBig(lo), e), Le(e, IntBig(hi))))
			}
		}
		return x.fromElem(st, e, t)
	}
}

func (x *Exec) mapGet(st *State, m *MapVal, k *Term) Value {
	mc := x.mapContent(st, m)
	mt := under(m.Obj.Typ).(*types.Map)
	k = x.keyTerm(k, x.elemSort(mt.Key()))
	return ownedAs(x.unflatten(st, mt.Elem(), "", func(path string, lt types.Type) *Term {
		return Select(mc.Leaves[path], k)
	}), mc)
}

// ownedAs: slices read out of a map are owned memory exactly if the map's values are.
func ownedAs(v Value, mc *MapContent) Value {
	f := mc.ValFresh
	if f == nil {
		f = TTrue
	}
	for _, r := range sliceRegions(v) {
		r.FreshT = f
	}
	return v
}

func (x *Exec) zeroElem(t types.Type) *Term {
	switch es := x.elemSort(t); {
	case es == SInt:
		return IntLit(0)
	case es == SBytes:
		return TEps
	case es == SBool:
		return TFalse
	case es.IsBV():
		return BVLit(big.NewInt(0), es.W)
	}
	panic(unsupported("zero element of " + t.String()))
}

func (x *Exec) mapUpdate(st *State, fr *Frame, v *ssa.MapUpdate) {
	m := x.val(st, fr, v.Map).(*MapVal)
	mc := x.mapContent(st, m)
	mt := under(m.Obj.Typ).(*types.Map)
	x.safety(st, "nilmap", v, Not(mc.Nil), "assignment to entry in nil map")
	k := x.keyTerm(x.val(st, fr, v.Key), x.elemSort(mt.Key()))
	leaves := map[string]*Term{}
	x.flatten(st, x.val(st, fr, v.Value), mt.Elem(), "", leaves)
	nm := &MapContent{Dom: Store(mc.Dom, k, TTrue), Leaves: map[string]*Term{}, Nil: mc.Nil, ValFresh: mc.ValFresh}
	for _, reg := range sliceRegions(x.val(st, fr, v.Value)) {
		if nm.ValFresh == nil {
			nm.ValFresh = TTrue
		}
		nm.ValFresh = And(nm.ValFresh, objFresh(reg))
	}
	for p, arr := range mc.Leaves {
		nm.Leaves[p] = Store(arr, k, leaves[p])
	}
	nm.Card = Add(mc.Card, Ite(Select(mc.Dom, k), IntLit(0), IntLit(1)))
	x.countAllocN(st, IntLit(64))
	st.Heap[m.Obj] = nm
}

func (x *Exec) lookup(st *State, fr *Frame, v *ssa.Lookup) Value {
	base := x.val(st, fr, v.X)
	switch b := base.(type) {
	case *MapVal:
		mc := x.mapContent(st, b)
		mt := under(b.Obj.Typ).(*types.Map)
		k := x.keyTerm(x.val(st, fr, v.Index), x.elemSort(mt.Key()))
		in := And(Not(mc.Nil), Select(mc.Dom, k))
		val := ownedAs(x.unflatten(st, mt.Elem(), "", func(path string, lt types.Type) *Term {
			return Ite(in, Select(mc.Leaves[path], k), x.zeroElem(lt))
		}), mc)
		if v.CommaOk {
			return &TupleVal{Vs: []Value{val, in}}
		}
		return val
	case *Term: // string index
		idx := x.toInt(x.val(st, fr, v.Index).(*Term))
		x.safety(st, "index", v, And(Le(IntLit(0), idx), Lt(idx, Len(b))), "string index in range")
		return x.byteAt(b, idx)
	}
	panic(unsupported(fmt.Sprintf("Lookup on %T", base)))
}

func (x *Exec) rangeInit(st *State, fr *Frame, v *ssa.Range) Value {
	base := x.val(st, fr, v.X)
	pos := newObj(ObjCell, types.Typ[types.Int], "iterpos", true)
	st.Heap[pos] = IntLit(0)
	switch b := base.(type) {
	case *MapVal:
		mc := x.mapContent(st, b)
		mt := under(b.Obj.Typ).(*types.Map)
		ks := x.elemSort(mt.Key())
		ord := Fresh("ord", SArr(SInt, ks))
		// ord enumerates the domain in an arbitrary order (a bijection between [0,card) and the key set)
		st.Assume(x.isPerm(ord, mc))
		st.LastOrd, st.LastPos = ord, pos
		return &IterVal{Map: b.Obj, Pos: pos, Ord: ord, KeyT: mt.Key()}
	case *Term:
		st.LastPos = pos
		return &IterVal{Str: b, Pos: pos}
	}
	panic(unsupported(fmt.Sprintf("range over %T", base)))
}

func (x *Exec) rangeNext(st *State, fr *Frame, v *ssa.Next) Value {
	it := x.val(st, fr, v.Iter).(*IterVal)
	i := st.Heap[it.Pos].(*Term)
	if it.Map != nil {
		mc := x.mapC(st, it.Map)
		mt := under(it.Map.Typ).(*types.Map)
		ok := Lt(i, mc.Card)
		k := Select(it.Ord, i)
		val := ownedAs(x.unflatten(st, mt.Elem(), "", func(path string, lt types.Type) *Term {
			return Select(mc.Leaves[path], k)
		}), mc)
		st.Heap[it.Pos] = Add(i, IntLit(1))
		return &TupleVal{Vs: []Value{ok, x.fromElem(st, k, mt.Key()), val}}
	}
	// string: (ok, byte index, rune)
	s := it.Str
	ok := Lt(i, Len(s))
	r := App("runeAt", SInt, s, i)
	w := App("runeLen", SInt, s, i)
	st.Assume(Implies(ok, And(Le(IntLit(1), w), Le(w, IntLit(4)), Le(Add(i, w), Len(s)))))
	st.Assume(Implies(ok, And(Le(IntLit(0), r), Le(r, IntLit(0x10FFFF)))))
	// ASCII bytes decode to themselves with width 1; multi-byte sequences decode to >= 0x80 (or U+FFFD)
	st.Assume(Implies(And(ok, Lt(At(s, i), IntLit(128))), And(Eq(w, IntLit(1)), Eq(r, At(s, i)))))
	st.Assume(Implies(And(ok, Ge(At(s, i), IntLit(128))), Ge(r, IntLit(128))))
	st.Heap[it.Pos] = Ite(ok, Add(i, w), i)
	var kv, rv Value = i, r
	if x.bv {
		rv = Int2BV(r, 32)
	}
	return &TupleVal{Vs: []Value{ok, kv, rv}}
}

// isPerm: ord[0..card) enumerates exactly the keys of the map, each once (ordinv is its inverse).
func (x *Exec) isPerm(ord *Term, mc *MapContent) *Term {
	ks := ord.S.Elem
	i := Const(fmt.Sprintf("i!q%d", x.nextQ()), SInt)
	i2 := Const(fmt.Sprintf("i!q%d", x.nextQ()), SInt)
	k := Const(fmt.Sprintf("k!q%d", x.nextQ()), ks)
	inv := func(t *Term) *Term { return App("ordinv", SInt, ord, t) }
	in := func(t *Term) *Term { return And(Le(IntLit(0), t), Lt(t, mc.Card)) }
	return And(
		Forall([]*Term{i}, Implies(in(i), Select(mc.Dom, Select(ord, i))), Select(ord, i)),
		Forall([]*Term{i2}, Implies(in(i2), Eq(inv(Select(ord, i2)), i2)), Select(ord, i2)),
		Forall([]*Term{k}, Implies(Select(mc.Dom, k), And(in(inv(k)), Eq(Select(ord, inv(k)), k))), Select(mc.Dom, k)),
	)
}

// tlv-shaped maps: value struct {tag, length uint16; value []byte}
func tlvLeaves(mc *MapContent) (tag, length, value *Term, ok bool) {
	tag, ok1 := mc.Leaves[".tag"]
	length, ok2 := mc.Leaves[".length"]
	value, ok3 := mc.Leaves[".value"]
	return tag, length, value, ok1 && ok2 && ok3
}

func tser(mc *MapContent, ord, lo, hi *Term) *Term {
	t, l, v, _ := tlvLeaves(mc)
	return App("tser", SBytes, t, l, v, ord, lo, hi)
}

// tlvWF: every entry is filed under its own tag and its length field equals the length of its value.
func (x *Exec) tlvWF(mc *MapContent) *Term {
	t, l, v, _ := tlvLeaves(mc)
	k := Const(fmt.Sprintf("k!q%d", x.nextQ()), mc.Dom.S.Idx)
	return Forall([]*Term{k}, Implies(Select(mc.Dom, k), And(Eq(Select(t, k), k), Eq(Select(l, k), Len(Select(v, k))), Le(IntLit(0), k), Lt(k, IntLit(65536)), Lt(Select(l, k), IntLit(65536)))), Select(mc.Dom, k))
}

func (x *Exec) mapEq(a, b *MapContent) *Term {
	k := Const(fmt.Sprintf("k!q%d", x.nextQ()), a.Dom.S.Idx)
	var eqs []*Term
	for _, p := range sortedKeys(a.Leaves) {
		eqs = append(eqs, Eq(Select(a.Leaves[p], k), Select(b.Leaves[p], k)))
	}
	da := And(Not(a.Nil), Select(a.Dom, k))
	db := And(Not(b.Nil), Select(b.Dom, k))
	return And(Eq(a.Card, b.Card), Forall([]*Term{k}, And(Eq(da, db), Implies(da, And(eqs...)))))
}

// sliceRegions: the backing regions of all slices inside a value (struct fields included).
func sliceRegions(v Value) []*Obj {
	switch s := v.(type) {
	case *SliceVal:
		return []*Obj{s.Reg}
	case *StructVal:
		var out []*Obj
		for _, f := range s.Fields {
			out = append(out, sliceRegions(f)...)
		}
		return out
	}
	return nil
}
