package main

// Package-level map literals (the GSM 7-bit tables) read from the AST of the current tree:
// (a) as the initial value of the global for the symbolic executor, (b) compared entry by entry with the
// independently transcribed TS 23.038 table (specs/gsm7_23038.json) as ground obligations of C08.

import (
	"encoding/json"
	"fmt"
	"go/ast"
	"go/constant"
	"go/types"
	"math/big"
	"os"
	"path/filepath"
	"sort"
	"strings"
)

type litEntry struct {
	K, V *big.Int
}

// mapLiteral returns the constant entries of `var name = map[K]V{...}` in the given package, or nil.
func (w *World) mapLiteral(pkgPath, name string) ([]litEntry, bool) {
	for _, p := range w.Pkgs {
		if p.PkgPath != pkgPath {
			continue
		}
		for _, f := range p.Syntax {
			for _, d := range f.Decls {
				gd, ok := d.(*ast.GenDecl)
				if !ok {
					continue
				}
				for _, s := range gd.Specs {
					vs, ok := s.(*ast.ValueSpec)
					if !ok {
						continue
					}
					for i, n := range vs.Names {
						if n.Name != name || i >= len(vs.Values) {
							continue
						}
						cl, ok := vs.Values[i].(*ast.CompositeLit)
						if !ok {
							return nil, false
						}
						var out []litEntry
						for _, e := range cl.Elts {
							kv, ok := e.(*ast.KeyValueExpr)
							if !ok {
								return nil, false
							}
							kt, vt := p.TypesInfo.Types[kv.Key], p.TypesInfo.Types[kv.Value]
							if kt.Value == nil || vt.Value == nil || kt.Value.Kind() != constant.Int || vt.Value.Kind() != constant.Int {
								return nil, false
							}
							k, _ := new(big.Int).SetString(kt.Value.ExactString(), 10)
							v, _ := new(big.Int).SetString(vt.Value.ExactString(), 10)
							out = append(out, litEntry{k, v})
						}
						return out, true
					}
				}
			}
		}
	}
	// not a literal: a map filled by constant assignments in init()  (m[K] = V)
	for _, p := range w.Pkgs {
		if p.PkgPath != pkgPath {
			continue
		}
		var out []litEntry
		found := false
		for _, f := range p.Syntax {
			for _, d := range f.Decls {
				fd, ok := d.(*ast.FuncDecl)
				if !ok || fd.Name.Name != "init" || fd.Recv != nil || fd.Body == nil {
					continue
				}
				for _, stmt := range fd.Body.List {
					as, ok := stmt.(*ast.AssignStmt)
					if !ok || len(as.Lhs) != 1 || len(as.Rhs) != 1 {
						continue
					}
					ix, ok := as.Lhs[0].(*ast.IndexExpr)
					if !ok {
						continue
					}
					id, ok := ix.X.(*ast.Ident)
					if !ok || id.Name != name {
						continue
					}
					kt, vt := p.TypesInfo.Types[ix.Index], p.TypesInfo.Types[as.Rhs[0]]
					if kt.Value == nil || vt.Value == nil || kt.Value.Kind() != constant.Int || vt.Value.Kind() != constant.Int {
						return nil, false
					}
					k, _ := new(big.Int).SetString(kt.Value.ExactString(), 10)
					v, _ := new(big.Int).SetString(vt.Value.ExactString(), 10)
					out = append(out, litEntry{k, v})
					found = true
				}
			}
		}
		if found {
			return out, true
		}
	}
	return nil, false
}

// globalMapContent builds the map content of a package-level map literal (closed world: exactly these keys).
func (x *Exec) globalMapContent(o *Obj, mt *types.Map, pkgPath, name string) (*MapContent, bool) {
	if _, scalar := under(mt.Elem()).(*types.Basic); !scalar {
		return nil, false // only tables of scalars are read from their literals
	}
	ents, ok := x.W.mapLiteral(pkgPath, name)
	if !ok {
		return nil, false
	}
	ks, vs := x.elemSort(mt.Key()), x.elemSort(mt.Elem())
	lit := func(s *Sort, n *big.Int) *Term {
		if s.IsBV() {
			return BVLit(n, s.W)
		}
		return IntBig(n)
	}
	dom := mk(&Term{Op: "constarr", Name: "false", S: SArr(ks, SBool)})
	val := Fresh("tbl."+name, SArr(ks, vs))
	seen := map[string]bool{}
	n := 0
	for _, e := range ents {
		dom = Store(dom, lit(ks, e.K), TTrue)
		val = Store(val, lit(ks, e.K), lit(vs, e.V))
		if !seen[e.K.String()] {
			seen[e.K.String()] = true
			n++
		}
	}
	return &MapContent{Dom: dom, Leaves: map[string]*Term{"": val}, Card: IntLit(int64(n)), Nil: TFalse}, true
}

// gsm7TableObligations compares the four tables of datacoding/gsm7encoding with TS 23.038.
func (w *World) gsm7TableObligations(root string) []*Obligation {
	var out []*Obligation
	const pkg = modPath + "/datacoding/gsm7encoding"
	add := func(name, text string, ok bool, detail string) {
		o := &Obligation{Name: "datacoding/gsm7encoding.tables[" + name + "]", Kind: "table", Props: []string{"C08"}, Func: pkg + ".tables", Behavior: "tables", Text: text, Goal: BoolLit(ok)}
		if ok {
			o.Result = "trivial"
		} else {
			o.Result = "sat"
			o.Model = detail
		}
		out = append(out, o)
	}
	b, err := os.ReadFile(filepath.Join(root, "specs", "gsm7_23038.json"))
	if err != nil {
		add("spec", "specs/gsm7_23038.json readable", false, err.Error())
		return out
	}
	var spec struct {
		Default   map[string]string `json:"default"`
		Extension map[string]string `json:"extension"`
	}
	if err := json.Unmarshal(b, &spec); err != nil {
		add("spec", "specs/gsm7_23038.json parses", false, err.Error())
		return out
	}
	parse := func(m map[string]string) map[int64]int64 { // septet -> rune
		r := map[int64]int64{}
		for k, v := range m {
			var s, u int64
			fmt.Sscanf(k, "0x%x", &s)
			fmt.Sscanf(strings.TrimPrefix(v, "U+"), "%x", &u)
			r[s] = u
		}
		return r
	}
	def, ext := parse(spec.Default), parse(spec.Extension)
	check := func(varName string, want map[int64]int64, forward bool) {
		ents, ok := w.mapLiteral(pkg, varName)
		if !ok {
			add(varName+".literal", varName+" is a map literal of constants", false, "not a constant map literal in the current tree")
			return
		}
		got := map[int64]int64{}
		dup := ""
		for _, e := range ents {
			k, v := e.K.Int64(), e.V.Int64()
			if _, d := got[k]; d {
				dup = fmt.Sprintf("duplicate key %#x", k)
			}
			got[k] = v
		}
		exp := map[int64]int64{}
		for s, u := range want {
			if forward {
				exp[u] = s
			} else {
				exp[s] = u
			}
		}
		var diffs []string
		for k, v := range exp {
			if g, ok := got[k]; !ok {
				diffs = append(diffs, fmt.Sprintf("missing %#x -> %#x", k, v))
			} else if g != v {
				diffs = append(diffs, fmt.Sprintf("%#x -> %#x, TS 23.038 says %#x", k, g, v))
			}
		}
		for k, v := range got {
			if _, ok := exp[k]; !ok {
				diffs = append(diffs, fmt.Sprintf("extra entry %#x -> %#x", k, v))
			}
		}
		if dup != "" {
			diffs = append(diffs, dup)
		}
		sort.Strings(diffs)
		add(varName, fmt.Sprintf("%s equals the TS 23.038 table (%d entries, no others)", varName, len(exp)), len(diffs) == 0, strings.Join(diffs, "; "))
	}
	check("forwardLookup", def, true)
	check("forwardEscape", ext, true)
	check("reverseLookup", def, false)
	check("reverseEscape", ext, false)
	return out
}
