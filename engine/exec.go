package main

// Symbolic executor over go/ssa: per function, per path, loops cut at their headers,
// callee contracts instead of callee bodies (un-contracted in-repo helpers are inlined).

import (
	"fmt"
	"go/constant"
	"go/token"
	"go/types"
	"math/big"
	"sort"
	"strings"

	"golang.org/x/tools/go/ssa"
)

type Obligation struct {
	Name     string
	Kind     string
	Props    []string
	Func     string
	Behavior string
	Facts    []*Term
	Goal     *Term
	Text     string
	Pos      string
	Theory   string
	Path     int
	// filled by the discharger
	Result       string // unsat(sat/unknown/timeout/trivial/error
	Solver       string
	TimeMS       int64
	Model        string
	SMTSize      int
	query        string
	relaxed      bool // candidate-generation query (see buildQueryRelaxed)
	Replay       *ReplaySpec
	ShortTimeout bool
}

type Exec struct {
	W          *World
	fn         *ssa.Function
	spec       *FuncSpec
	beh        *Behavior
	bv         bool
	arr        bool
	theory     string
	obls       []*Obligation
	paths      int
	returns    int
	quiet      int // >0: discovery mode, no obligations
	errs       []string
	ghost      map[string]Value
	assumed    map[string]bool
	ifaceFacts map[*Term]bool
	symObjs    map[*Term]*Obj
	utcLoc     *Obj            // the Location object UTC() results point to
	callees    map[string]bool // contracts of callees this execution relied on (keys of World.Specs)
	ordinal    map[ssa.Instruction]int
	globals    map[string]*Obj
	gvals      map[*Obj]Value
	gfacts     []*Term
	errIDs     map[string]*Term
	maxPath    int
	curPath    int
	inl        []string // inline stack (names)
	entry      *entryCtx
	strs       map[string]*Term
	trace      bool
	retFacts   [][]*Term
	qctr       int
	bufSrc     map[*Obj]*Obj
	lazy       map[*Obj]Value
	conns      map[*Term]*Obj
	boxed      map[*Term]Value
	sidx       map[*Term]bool
	unfolded   map[*Term]bool
	recfact    map[*Term]bool
	aliasOf    map[*Obj]*Obj
}

type entryCtx struct {
	params  map[string]Value
	pre     *State // state right after parameter setup + requires
	results []string
	ghosts  map[string]Value
}

type loopCtx struct {
	header    *ssa.BasicBlock
	variant   *Term
	entry     *State // state at loop entry (before havoc)
	entryRegs map[ssa.Value]Value
	spec      *LoopSpec
	parent    *loopCtx
	discover  *discoverCtx
	fr        *Frame
	name      string
	iter      *Term
	unroll    bool // a loop without a contract: executed iteration by iteration (complete only if it ends within the bound)
	count     int
}

type discoverCtx struct {
	head     *State
	mods     map[*Obj]bool
	leafMods map[*Obj][][]int
}

type cont func(st *State, results []Value)

func (x *Exec) fail(msg string) {
	for _, e := range x.errs {
		if e == msg {
			return
		}
	}
	x.errs = append(x.errs, msg)
}

func (x *Exec) assume(id string) { x.assumed[id] = true }

// ---------- obligations

func (x *Exec) oblige(st *State, kind, name string, props []string, goal *Term, text, pos string) {
	if x.quiet > 0 {
		return
	}
	if x.fn == nil {
		return
	}
	if goal.IsTrue() {
		// still count it: discharged by construction (syntactic simplification)
		x.obls = append(x.obls, &Obligation{Name: name, Kind: kind, Props: props, Func: funcKey(x.fn), Behavior: x.beh.Name,
			Goal: goal, Text: text, Pos: pos, Theory: x.theory, Path: x.curPath, Result: "trivial"})
		return
	}
	facts := append([]*Term(nil), x.gfacts...)
	facts = append(facts, st.Facts...)
	x.obls = append(x.obls, &Obligation{Name: name, Kind: kind, Props: props, Func: funcKey(x.fn), Behavior: x.beh.Name,
		Facts: facts, Goal: goal, Text: text, Pos: pos, Theory: x.theory, Path: x.curPath})
}

func (x *Exec) safety(st *State, kind string, in ssa.Instruction, goal *Term, text string) {
	name := x.instrName(kind, in)
	x.oblige(st, kind, name, x.safetyProps(), goal, text, x.W.pos(in.Pos()))
	if n := len(x.obls); n > 0 && x.obls[n-1].Name == name && x.obls[n-1].Result == "" && x.entry != nil && len(x.inl) == 0 && (kind == "index" || kind == "slice" || kind == "nil" || kind == "div" || kind == "assert" || kind == "nilmap") {
		// a ground counterexample to a safety obligation can be replayed: the real call must panic on it
		x.obls[n-1].Replay = x.replaySpecFor(x.fn, x.entry.params, st, nil)
	}
	// after checking, assume it (standard: later obligations may rely on it)
	st.Assume(goal)
}

func (x *Exec) safetyProps() []string {
	if len(x.beh.Props) > 0 {
		return x.beh.Props
	}
	return x.spec.Props
}

func (x *Exec) instrName(kind string, in ssa.Instruction) string {
	prefix := ""
	if len(x.inl) > 0 {
		prefix = "@" + strings.Join(x.inl, "@") + "."
	}
	fn := in.Parent()
	ord := x.ordinalOf(fn, kind, in)
	return fmt.Sprintf("%s#%s.%s%s[%d]", shortKey(funcKey(x.fn)), x.beh.Name, prefix, kind, ord)
}

func (x *Exec) ordinalOf(fn *ssa.Function, kind string, in ssa.Instruction) int {
	if n, ok := x.ordinal[in]; ok {
		return n
	}
	// number every instruction of the function per syntactic class, in block order
	cnt := map[string]int{}
	for _, b := range fn.Blocks {
		for _, i := range b.Instrs {
			c := instrClass(i)
			if c == "" {
				continue
			}
			cnt[c]++
			x.ordinal[i] = cnt[c]
		}
	}
	return x.ordinal[in]
}

func instrClass(i ssa.Instruction) string {
	switch v := i.(type) {
	case *ssa.IndexAddr, *ssa.Index:
		return "index"
	case *ssa.Slice:
		return "slice"
	case *ssa.Call:
		return "call"
	case *ssa.Defer:
		return "call"
	case *ssa.UnOp:
		if v.Op == token.MUL {
			return "deref"
		}
	case *ssa.Store:
		return "store"
	case *ssa.FieldAddr:
		return "field"
	case *ssa.MakeSlice:
		return "make"
	case *ssa.BinOp:
		if v.Op == token.QUO || v.Op == token.REM {
			return "div"
		}
		if v.Op == token.SHL || v.Op == token.SHR {
			return "shift"
		}
	case *ssa.TypeAssert:
		return "assert"
	case *ssa.Convert:
		return "conv"
	case *ssa.MapUpdate:
		return "mapupdate"
	case *ssa.Lookup:
		return "lookup"
	}
	return ""
}

// ---------- values of SSA operands

func (x *Exec) val(st *State, fr *Frame, v ssa.Value) Value {
	switch c := v.(type) {
	case *ssa.Const:
		return x.constVal(st, c)
	case *ssa.Global:
		return &PtrVal{Obj: x.globalObj(c), Nil: TFalse, Glob: c.Pkg.Pkg.Path() + "." + c.Name()}
	case *ssa.Function:
		return &FuncVal{Fn: c, Name: c.Name()}
	case *ssa.Builtin:
		return &FuncVal{Fn: c, Name: c.Name()}
	}
	if r, ok := fr.Regs[v]; ok {
		return r
	}
	panic(unsupported(fmt.Sprintf("unbound SSA value %s (%T) in %s", v.Name(), v, fr.Fn.(*ssa.Function).Name())))
}

func (x *Exec) intTerm(t types.Type, n *big.Int) *Term {
	if bits, ok := x.bvOf(t); ok {
		return BVLit(n, bits)
	}
	return IntBig(n)
}

func (x *Exec) constVal(st *State, c *ssa.Const) Value {
	t := c.Type()
	if c.Value == nil {
		return x.zeroValue(st, t)
	}
	switch c.Value.Kind() {
	case constant.Bool:
		return BoolLit(constant.BoolVal(c.Value))
	case constant.String:
		return x.strLit(st, constant.StringVal(c.Value))
	case constant.Int:
		n, _ := new(big.Int).SetString(c.Value.ExactString(), 10)
		if isFloatT(t) {
			return App("float.lit", SInt, IntBig(n))
		}
		return x.intTerm(t, n)
	case constant.Float:
		if isFloatT(t) {
			if n, ok := new(big.Int).SetString(c.Value.ExactString(), 10); ok {
				return App("float.lit", SInt, IntBig(n))
			}
			return Const("float$"+sanitize(c.Value.ExactString()), SInt)
		}
	}
	panic(unsupported("constant " + c.String()))
}

func (x *Exec) strLit(st *State, s string) *Term {
	if s == "" {
		return TEps
	}
	if t, ok := x.strs[s]; ok {
		return t
	}
	var t *Term
	if len(s) <= 24 {
		parts := make([]*Term, len(s))
		for i := 0; i < len(s); i++ {
			parts[i] = U8(IntLit(int64(s[i])))
		}
		t = CatN(parts...)
	} else {
		t = Const(fmt.Sprintf("str$%x", s[:12])+fmt.Sprintf("_%d", len(x.strs)), SBytes)
		x.gfacts = append(x.gfacts, Eq(App("len", SInt, t), IntLit(int64(len(s)))))
		if !strings.Contains(s, "\x00") {
			x.gfacts = append(x.gfacts, Nonul(t))
		}
	}
	x.strs[s] = t
	return t
}

func (x *Exec) globalObj(g *ssa.Global) *Obj {
	k := g.Pkg.Pkg.Path() + "." + g.Name()
	if o, ok := x.globals[k]; ok {
		return o
	}
	o := newObj(ObjCell, g.Type().(*types.Pointer).Elem(), k, false)
	x.globals[k] = o
	return o
}

func (x *Exec) errConst(name string) *Term {
	if t, ok := x.errIDs[name]; ok {
		return t
	}
	t := Const("err$"+sanitize(name), SInt)
	x.gfacts = append(x.gfacts, Ne(t, IntLit(0)))
	for _, k := range sortedKeys(x.errIDs) {
		x.gfacts = append(x.gfacts, Ne(t, x.errIDs[k]))
	}
	x.gfacts = append(x.gfacts, Eq(App("isEOFp", SBool, t), BoolLit(name == "io.EOF")))
	x.gfacts = append(x.gfacts, Eq(App("errtag", SInt, t), t)) // sentinel errors carry their own identity as tag; all other errors have tag 0
	x.errIDs[name] = t
	return t
}

// global cell contents (treated as constants after init; a syntactic scan checks no stores outside init)
func (x *Exec) globalValue(st *State, o *Obj) Value {
	if v, ok := x.gvals[o]; ok {
		return v
	}
	var v Value
	if isErrorT(o.Typ) {
		v = &IfaceVal{Sym: x.errConst(shortKey(o.Name)), Typ: o.Typ}
	} else if mt, isMap := under(o.Typ).(*types.Map); isMap && strings.Contains(o.Name, ".") {
		i := strings.LastIndex(o.Name, ".")
		if mc, ok := x.globalMapContent(o, mt, o.Name[:i], o.Name[i+1:]); ok {
			mo := newObj(ObjMap, o.Typ, o.Name, false)
			x.lazy[mo] = mc
			v = &MapVal{Obj: mo}
		} else {
			tmp := &State{Heap: st.Heap}
			v = x.freshValue(tmp, o.Typ, "glob."+shortKey(o.Name), true)
			x.gfacts = append(x.gfacts, tmp.Facts...)
		}
	} else {
		tmp := &State{Heap: st.Heap}
		v = x.freshValue(tmp, o.Typ, "glob."+shortKey(o.Name), true)
		x.gfacts = append(x.gfacts, tmp.Facts...)
	}
	x.gvals[o] = v
	return v
}

// ---------- running a function

var frameCtr = 0

func (x *Exec) newFrame(fn *ssa.Function) *Frame {
	frameCtr++
	return &Frame{ID: frameCtr, Fn: fn, Regs: map[interface{}]Value{}}
}

func (x *Exec) execBlock(st *State, fr *Frame, b, prev *ssa.BasicBlock, lc *loopCtx, k cont) {
	fn := fr.Fn.(*ssa.Function)
	li := x.W.Loops(fn)
	if ord, isHeader := li.Ord[b]; isHeader {
		// arriving at a loop header
		// a back edge of the innermost loop, or (after an inner loop has been left) of an enclosing one
		for c := lc; c != nil; c = c.parent {
			if c.header == b && c.fr.ID == fr.ID {
				if c.unroll {
					x.unrollBackEdge(st, fr, b, prev, c, k)
				} else {
					x.loopBackEdge(st, fr, b, prev, c)
				}
				return
			}
		}
		x.loopEnter(st, fr, b, prev, ord, lc, k)
		return
	}
	x.execFrom(st, fr, b, prev, 0, lc, k)
}

func (x *Exec) bindPhis(st *State, fr *Frame, b, prev *ssa.BasicBlock) {
	if prev == nil {
		return
	}
	idx := -1
	for i, p := range b.Preds {
		if p == prev {
			idx = i
			break
		}
	}
	if idx < 0 {
		return
	}
	// parallel assignment
	var vals []Value
	var phis []*ssa.Phi
	for _, in := range b.Instrs {
		p, ok := in.(*ssa.Phi)
		if !ok {
			break
		}
		phis = append(phis, p)
		vals = append(vals, x.val(st, fr, p.Edges[idx]))
	}
	for i, p := range phis {
		fr.Regs[p] = vals[i]
	}
}

func (x *Exec) execFrom(st *State, fr *Frame, b, prev *ssa.BasicBlock, start int, lc *loopCtx, k cont) {
	if start == 0 {
		x.bindPhis(st, fr, b, prev)
	}
	for i := start; i < len(b.Instrs); i++ {
		in := b.Instrs[i]
		switch v := in.(type) {
		case *ssa.Phi:
			continue
		case *ssa.DebugRef:
			continue
		case *ssa.If:
			cond := x.val(st, fr, v.Cond).(*Term)
			x.branch(st, fr, b, cond, lc, k)
			return
		case *ssa.Jump:
			x.execBlock(st, fr, b.Succs[0], b, lc, k)
			return
		case *ssa.Return:
			var rs []Value
			for _, r := range v.Results {
				rs = append(rs, x.val(st, fr, r))
			}
			k(st, rs)
			return
		case *ssa.Panic:
			x.safety(st, "panic", in, TFalse, "explicit panic unreachable")
			return
		case *ssa.RunDefers:
			x.runDefers(st, fr, len(fr.Defers)-1, func(st2 *State, _ []Value) {
				x.execFrom(st2, fr, b, prev, i+1, lc, k)
			})
			return
		case *ssa.Call:
			// a call may continue more than once (its paths, its outcomes); every continuation starts from the registers
			// as they were at the call, not as an earlier continuation left them (loop phis are rebound at back edges)
			var snap *Frame
			x.doCall(st, fr, v, &v.Call, func(st2 *State, res []Value) {
				if snap == nil {
					snap = cloneFrame(fr)
				} else {
					c := cloneFrame(snap)
					fr.Regs, fr.Defers = c.Regs, c.Defers
				}
				if v.Call.Signature().Results().Len() == 1 {
					fr.Regs[v] = res[0]
				} else if v.Call.Signature().Results().Len() > 1 {
					fr.Regs[v] = &TupleVal{Vs: res}
				}
				x.execFrom(st2, fr, b, prev, i+1, lc, k)
			})
			return
		case *ssa.Defer:
			d := deferred{call: v}
			d.fn = nil
			if !v.Call.IsInvoke() {
				if _, isFn := v.Call.Value.(*ssa.Function); !isFn {
					if _, isB := v.Call.Value.(*ssa.Builtin); !isB {
						d.fn = x.val(st, fr, v.Call.Value)
					}
				}
			} else {
				d.fn = x.val(st, fr, v.Call.Value)
			}
			for _, a := range v.Call.Args {
				d.args = append(d.args, x.val(st, fr, a))
			}
			fr.Defers = append(fr.Defers, d)
		case *ssa.Go:
			panic(unsupported("go statement"))
		default:
			x.step(st, fr, in)
		}
	}
}

// branch forks on a condition; both successors run on cloned state/frame.
func (x *Exec) branch(st *State, fr *Frame, b *ssa.BasicBlock, cond *Term, lc *loopCtx, k cont) {
	if cond.IsTrue() {
		x.execBlock(st, fr, b.Succs[0], b, lc, k)
		return
	}
	if cond.IsFalse() {
		x.execBlock(st, fr, b.Succs[1], b, lc, k)
		return
	}
	// a loop that is being unrolled for want of a contract must decide its own exit: if leaving or staying depends on the
	// input, no bounded unrolling completes it - it needs an invariant (said at once, instead of exploring 2^64 paths)
	for c := lc; c != nil; c = c.parent {
		if !c.unroll || c.fr.ID != fr.ID {
			continue
		}
		body := x.W.Loops(fr.Fn.(*ssa.Function)).Body[c.header]
		if body[b] && (!body[b.Succs[0]] || !body[b.Succs[1]]) {
			if x.quiet == 0 {
				x.fail(fmt.Sprintf("%s has no invariant and the number of its iterations depends on the input", c.name))
			}
			x.returns++
			return
		}
		break
	}
	x.paths++
	if x.paths > x.maxPath {
		panic(unsupported(fmt.Sprintf("more than %d paths", x.maxPath)))
	}
	st2 := st.Clone()
	fr2 := cloneFrame(fr)
	st.Assume(cond)
	x.execBlock(st, fr, b.Succs[0], b, lc, k)
	st2.Assume(Not(cond))
	x.curPath++
	x.execBlock(st2, fr2, b.Succs[1], b, lc, k)
}

func cloneFrame(fr *Frame) *Frame {
	n := &Frame{ID: fr.ID, Fn: fr.Fn, Regs: make(map[interface{}]Value, len(fr.Regs)), Defers: append([]deferred(nil), fr.Defers...)}
	for k, v := range fr.Regs {
		n.Regs[k] = v
	}
	return n
}

func (x *Exec) runDefers(st *State, fr *Frame, i int, k cont) {
	if i < 0 {
		fr.Defers = nil
		k(st, nil)
		return
	}
	d := fr.Defers[i]
	dv := d.call.(*ssa.Defer)
	x.doCallVals(st, fr, dv, &dv.Call, d.fn, d.args, func(st2 *State, _ []Value) {
		x.runDefers(st2, fr, i-1, k)
	})
}

// ---------- straight-line instructions

func (x *Exec) step(st *State, fr *Frame, in ssa.Instruction) {
	switch v := in.(type) {
	case *ssa.Alloc:
		if at, ok := under(v.Type().(*types.Pointer).Elem()).(*types.Array); ok && (!isByte(at.Elem()) || x.arr) {
			// local array (slice literal backing store, [3]uint32{...}): an array-represented region
			reg := newObj(ObjRegion, at.Elem(), v.Comment, true)
			a := Fresh("arr", SArr(SInt, x.elemSort(at.Elem())))
			if z := x.zeroElemOrNil(at.Elem()); z != nil {
				for i := int64(0); i < at.Len() && i < 64; i++ {
					a = Store(a, IntLit(i), z)
				}
			}
			st.Heap[reg] = &RegionVal{Arr: a, Len: IntLit(at.Len())}
			x.countAlloc(st, at)
			fr.Regs[v] = &PtrVal{Obj: reg, Nil: TFalse, ArrT: at}
			return
		}
		if at, ok := under(v.Type().(*types.Pointer).Elem()).(*types.Array); ok && isByte(at.Elem()) && !x.arr {
			// local octet array: a byte-sequence region, so that slices of it (tmp[:]) are views of the array itself
			reg := newObj(ObjRegion, at.Elem(), v.Comment, true)
			st.Heap[reg] = &RegionVal{Bytes: Zeros(IntLit(at.Len()))}
			x.countAlloc(st, at)
			fr.Regs[v] = &PtrVal{Obj: reg, Nil: TFalse, ArrT: at}
			return
		}
		o := newObj(ObjCell, v.Type().(*types.Pointer).Elem(), v.Comment, true)
		if o.Name == "" {
			o.Name = v.Name()
		}
		st.Heap[o] = x.zeroValue(st, o.Typ)
		x.countAlloc(st, o.Typ)
		fr.Regs[v] = &PtrVal{Obj: o, Nil: TFalse}
	case *ssa.BinOp:
		fr.Regs[v] = x.binop(st, v, v.Op, x.val(st, fr, v.X), x.val(st, fr, v.Y), v.X.Type(), v.Type())
	case *ssa.UnOp:
		fr.Regs[v] = x.unop(st, fr, v)
	case *ssa.FieldAddr:
		p := x.val(st, fr, v.X).(*PtrVal)
		x.safety(st, "nil", in, Not(p.Nil), "pointer not nil at field access")
		fr.Regs[v] = &PtrVal{Obj: p.Obj, Path: append(append([]int(nil), p.Path...), v.Field), Idx: p.Idx, Nil: TFalse}
	case *ssa.Field:
		sv := x.val(st, fr, v.X).(*StructVal)
		fr.Regs[v] = sv.Fields[v.Field]
	case *ssa.IndexAddr:
		fr.Regs[v] = x.indexAddr(st, fr, v)
	case *ssa.Index:
		fr.Regs[v] = x.indexValue(st, fr, v)
	case *ssa.Store:
		p := x.val(st, fr, v.Addr).(*PtrVal)
		x.store(st, in, p, x.val(st, fr, v.Val))
	case *ssa.Slice:
		fr.Regs[v] = x.sliceOp(st, fr, v)
	case *ssa.MakeSlice:
		fr.Regs[v] = x.makeSlice(st, fr, v)
	case *ssa.MakeInterface:
		fr.Regs[v] = &IfaceVal{Dyn: v.X.Type(), V: x.val(st, fr, v.X), Typ: v.Type()}
	case *ssa.ChangeInterface:
		fr.Regs[v] = x.val(st, fr, v.X)
	case *ssa.ChangeType:
		fr.Regs[v] = x.val(st, fr, v.X)
	case *ssa.Convert:
		fr.Regs[v] = x.convert(st, v, x.val(st, fr, v.X), v.X.Type(), v.Type())
	case *ssa.Extract:
		tv := x.val(st, fr, v.Tuple).(*TupleVal)
		fr.Regs[v] = tv.Vs[v.Index]
	case *ssa.TypeAssert:
		fr.Regs[v] = x.typeAssert(st, fr, v)
	case *ssa.MakeMap:
		o := newObj(ObjMap, v.Type(), v.Name(), true)
		mt := under(v.Type()).(*types.Map)
		mc := x.freshMapContent(st, mt, "newmap")
		mc.Nil = TFalse
		mc.Card = IntLit(0)
		mc.ValFresh = TTrue
		st.Assume(x.mapEmpty(mc, mt))
		st.Heap[o] = mc
		x.countAllocN(st, IntLit(48))
		fr.Regs[v] = &MapVal{Obj: o}
	case *ssa.MapUpdate:
		x.mapUpdate(st, fr, v)
	case *ssa.Lookup:
		fr.Regs[v] = x.lookup(st, fr, v)
	case *ssa.Range:
		fr.Regs[v] = x.rangeInit(st, fr, v)
	case *ssa.Next:
		fr.Regs[v] = x.rangeNext(st, fr, v)
	case *ssa.MakeClosure:
		fv := &FuncVal{Fn: v.Fn.(*ssa.Function), Name: v.Fn.Name()}
		for _, b := range v.Bindings {
			fv.Bind = append(fv.Bind, x.val(st, fr, b))
		}
		fr.Regs[v] = fv
	default:
		panic(unsupported(fmt.Sprintf("instruction %T (%s)", in, in)))
	}
}

func (x *Exec) countAlloc(st *State, t types.Type) {
	sz := types.SizesFor("gc", "amd64").Sizeof(t)
	x.countAllocN(st, IntLit(sz))
}

func (x *Exec) countAllocN(st *State, n *Term) {
	if st.Alloc == nil {
		st.Alloc = IntLit(0)
	}
	if n.S.IsBV() {
		n = BV2Int(n)
	}
	st.Alloc = Add(st.Alloc, Max(n, IntLit(0)))
}

// load through a pointer
func (x *Exec) load(st *State, p *PtrVal, t types.Type) Value {
	if p.Obj == nil {
		// nil pointer dereference is guarded by the caller's obligation; produce a fresh value
		return x.freshValue(st, t, "nilderef", false)
	}
	if p.InArr {
		av := getPath(x.cellValue(st, p.Obj), p.Path).(*ArrVal)
		return x.byteAt(av.Bytes, p.Idx)
	}
	if p.Obj.Kind == ObjRegion && p.ArrT != nil && p.Idx == nil {
		rv := x.region(st, p.Obj)
		if rv.Bytes != nil {
			return &ArrVal{Typ: p.ArrT, Bytes: rv.Bytes}
		}
		av := &ArrVal{Typ: p.ArrT}
		for i := int64(0); i < p.ArrT.Len(); i++ {
			av.Elems = append(av.Elems, x.fromElem(st, Select(rv.Arr, IntLit(i)), p.ArrT.Elem()))
		}
		return av
	}
	if p.Obj.Kind == ObjRegion {
		rv := x.region(st, p.Obj)
		if rv.Bytes != nil {
			return x.byteAt(rv.Bytes, p.Idx)
		}
		return x.fromElem(st, Select(rv.Arr, p.Idx), p.Obj.Typ)
	}
	var v Value
	if p.Glob != "" || x.isGlobalObj(p.Obj) {
		v = x.globalValue(st, p.Obj)
	} else {
		v = x.cellValue(st, p.Obj)
	}
	return getPath(v, p.Path)
}

func (x *Exec) zeroElemOrNil(t types.Type) (z *Term) {
	defer func() {
		if recover() != nil {
			z = nil
		}
	}()
	return x.zeroElem(t)
}

// byteAt: the octet of a byte sequence; in bit-vector mode an 8-bit vector (atb), otherwise an integer (at).
func (x *Exec) byteAt(s, i *Term) *Term {
	if x.bv {
		return App("atb", SBV(8), s, i)
	}
	return At(s, i)
}

func (x *Exec) isGlobalObj(o *Obj) bool {
	g, ok := x.globals[o.Name]
	return ok && g == o
}

// fromElem converts an SMT array element back into a Value of Go type t.
func (x *Exec) fromElem(st *State, e *Term, t types.Type) Value {
	switch u := under(t).(type) {
	case *types.Slice:
		if isByte(u.Elem()) {
			return x.newByteSliceAbstract(st, e)
		}
	case *types.Interface:
		return &IfaceVal{Sym: e, Typ: t}
	case *types.Signature:
		return &FuncVal{Name: "elem", Sym: e}
	case *types.Pointer:
		if _, ok := under(u.Elem()).(*types.Struct); ok {
			return x.symPtr(st, e, u)
		}
	}
	return e
}

// symPtr: a pointer read out of a slice element. Its target is an input-like object named by the element's identity
// (the same identity term always gives the same object; different terms give objects with unrelated contents, which
// over-approximates possible aliasing). Such objects are read-only: a store through them is outside the subset.
func (x *Exec) symPtr(st *State, id *Term, pt *types.Pointer) *PtrVal {
	if x.symObjs == nil {
		x.symObjs = map[*Term]*Obj{}
	}
	o := x.symObjs[id]
	if o == nil {
		o = newObj(ObjCell, pt.Elem(), fmt.Sprintf("elt%d", len(x.symObjs)), false)
		o.Opaque = true
		o.SymID = id
		x.symObjs[id] = o
	}
	return &PtrVal{Obj: o, Nil: Eq(id, IntLit(0))}
}

// funcID: the Int identity of a statically known top-level function.
func (x *Exec) funcID(fn *ssa.Function) *Term { return x.W.tagNum("func:" + funcKey(fn)) }

func (x *Exec) funcTerm(f *FuncVal) (*Term, bool) {
	if f.Sym != nil {
		return f.Sym, true
	}
	if f.Fn == nil {
		if f.Name == "nil" {
			return IntLit(0), true
		}
		return nil, false
	}
	if sf, ok := f.Fn.(*ssa.Function); ok && len(f.Bind) == 0 && sf.Parent() == nil {
		return x.funcID(sf), true
	}
	return nil, false
}

// newByteSliceAbstract: a []byte element of a [][]byte stored by value; region identity is lost.
func (x *Exec) newByteSliceAbstract(st *State, content *Term) *SliceVal {
	s := x.newByteSlice(st, content, "elem")
	s.Reg.Fresh = false
	s.Nil = Fresh("elem.nil", SBool)
	st.Assume(Implies(s.Nil, Eq(Len(content), IntLit(0))))
	return s
}

func (x *Exec) toElem(st *State, v Value, t types.Type) *Term {
	switch s := v.(type) {
	case *Term:
		return s
	case *SliceVal:
		if isByte(s.Elt) {
			return x.sliceBytes(st, s)
		}
	case *IfaceVal:
		if s.Sym != nil {
			return s.Sym
		}
		// a concrete interface value stored into an array (variadic ...interface{} arguments): identity only
		id := Fresh("boxed", SInt)
		st.Assume(Ne(id, IntLit(0)))
		x.boxed[id] = s
		return id
	case *PtrVal:
		if s.Obj != nil && s.Obj.SymID != nil {
			return s.Obj.SymID
		}
		id := Fresh("ptr", SInt)
		return id
	case *FuncVal:
		if t, ok := x.funcTerm(s); ok {
			return t
		}
	}
	panic(unsupported(fmt.Sprintf("store of %T into array element of type %s", v, t)))
}

func (x *Exec) store(st *State, in ssa.Instruction, p *PtrVal, v Value) {
	x.safety(st, "nil", in, Not(p.Nil), "pointer not nil at store")
	if p.Obj == nil {
		return
	}
	if p.Obj.SymID != nil {
		panic(unsupported("store through a pointer that was read out of a slice element (such objects are read-only in this model)"))
	}
	if p.InArr {
		cur := x.cellValue(st, p.Obj)
		av := getPath(cur, p.Path).(*ArrVal)
		b := v.(*Term)
		if b.S.IsBV() {
			b = BV2Int(b)
		}
		if av.Bytes.Op == "app" && av.Bytes.Name == "zeros" && b.Op == "int" && b.Num.Sign() == 0 {
			return // storing 0 into a zero block changes nothing
		}
		nb := CatN(Take(av.Bytes, p.Idx), U8(b), Drop(av.Bytes, Add(p.Idx, IntLit(1))))
		st.Heap[p.Obj] = setPath(cur, p.Path, &ArrVal{Typ: av.Typ, Bytes: nb})
		return
	}
	if p.Obj.Kind == ObjRegion && p.ArrT != nil && p.Idx == nil {
		rv := x.region(st, p.Obj)
		av := v.(*ArrVal)
		if rv.Bytes != nil {
			if av.Bytes == nil {
				panic(unsupported("element-wise value stored into an octet array"))
			}
			st.Heap[p.Obj] = &RegionVal{Bytes: av.Bytes}
			return
		}
		a := rv.Arr
		for i, el := range av.Elems {
			a = Store(a, IntLit(int64(i)), x.toElem(st, el, p.ArrT.Elem()))
		}
		st.Heap[p.Obj] = &RegionVal{Arr: a, Len: rv.Len}
		return
	}
	if p.Obj.Kind == ObjRegion {
		rv := x.region(st, p.Obj)
		if rv.Bytes != nil {
			b := v.(*Term)
			if b.S.IsBV() {
				b = BV2Int(b)
			}
			if rv.Bytes.Op == "app" && rv.Bytes.Name == "zeros" && b.Op == "int" && b.Num.Sign() == 0 {
				return // storing 0 into a zero block changes nothing
			}
			nb := CatN(Take(rv.Bytes, p.Idx), U8(b), Drop(rv.Bytes, Add(p.Idx, IntLit(1))))
			st.Heap[p.Obj] = &RegionVal{Bytes: nb}
			return
		}
		st.Heap[p.Obj] = &RegionVal{Arr: Store(rv.Arr, p.Idx, x.toElem(st, v, p.Obj.Typ)), Len: rv.Len}
		return
	}
	if x.isGlobalObj(p.Obj) {
		if fn := x.fn; fn == nil || fn.Name() != "init" {
			x.fail("store to package-level variable " + p.Obj.Name + " outside init")
		}
		x.gvals[p.Obj] = setPath(x.globalValue(st, p.Obj), p.Path, v)
		return
	}
	cur := x.cellValue(st, p.Obj)
	st.Heap[p.Obj] = setPath(cur, p.Path, v)
}

func (x *Exec) unop(st *State, fr *Frame, v *ssa.UnOp) Value {
	a := x.val(st, fr, v.X)
	switch v.Op {
	case token.MUL:
		p := a.(*PtrVal)
		x.safety(st, "nil", v, Not(p.Nil), "pointer not nil at load")
		return x.load(st, p, v.Type())
	case token.NOT:
		return Not(a.(*Term))
	case token.SUB:
		t := a.(*Term)
		if t.S.IsBV() {
			return op("bvneg", t.S, t)
		}
		if isFloatT(v.Type()) {
			return App("float.neg", SInt, t)
		}
		return x.wrap(Neg(t), v.Type())
	case token.XOR:
		t := a.(*Term)
		if t.S.IsBV() {
			return BVNot(t)
		}
		bits, signed, _ := intInfo(v.Type())
		if !signed {
			return Sub(Sub(Pow2(bits), IntLit(1)), t)
		}
		return Sub(IntLit(-1), t)
	}
	panic(unsupported("unary " + v.Op.String()))
}

// wrap reduces a mathematical integer to the range of Go type t (no-op for int/int64/uint64 sums kept in range by A-LEN is NOT assumed for unsigned).
func (x *Exec) wrap(t *Term, typ types.Type) *Term {
	bits, signed, ok := intInfo(typ)
	if !ok || t.S != SInt {
		return t
	}
	if lo, hi, known := x.bounds(t); known {
		tl, th := intRange(typ)
		if lo.Cmp(tl) >= 0 && hi.Cmp(th) <= 0 {
			return t
		}
	}
	if signed {
		if bits == 64 {
			x.assume("A-LEN")
			return t // int / int64 arithmetic treated as mathematical (stated assumption)
		}
		// two's complement wrap
		m := Pow2(bits)
		h := Pow2(bits - 1)
		return Sub(Mod(Add(t, h), m), h)
	}
	return Mod(t, Pow2(bits))
}

// bounds: cheap interval analysis over Int terms
var boundCache = map[*Term][2]*big.Int{}

func (x *Exec) bounds(t *Term) (lo, hi *big.Int, ok bool) { return termBounds(t) }

func termBounds(t *Term) (lo, hi *big.Int, ok bool) {
	if b, hit := boundCache[t]; hit {
		return b[0], b[1], b[0] != nil
	}
	defer func() {
		if ok {
			boundCache[t] = [2]*big.Int{lo, hi}
		} else {
			boundCache[t] = [2]*big.Int{nil, nil}
		}
	}()
	switch t.Op {
	case "int":
		return t.Num, t.Num, true
	case "+":
		lo, hi = new(big.Int), new(big.Int)
		for _, a := range t.Args {
			l, h, k := termBounds(a)
			if !k {
				return nil, nil, false
			}
			lo.Add(lo, l)
			hi.Add(hi, h)
		}
		return lo, hi, true
	case "-":
		l1, h1, k1 := termBounds(t.Args[0])
		l2, h2, k2 := termBounds(t.Args[1])
		if k1 && k2 {
			return new(big.Int).Sub(l1, h2), new(big.Int).Sub(h1, l2), true
		}
	case "*":
		l1, h1, k1 := termBounds(t.Args[0])
		l2, h2, k2 := termBounds(t.Args[1])
		if k1 && k2 {
			c := []*big.Int{new(big.Int).Mul(l1, l2), new(big.Int).Mul(l1, h2), new(big.Int).Mul(h1, l2), new(big.Int).Mul(h1, h2)}
			lo, hi = c[0], c[0]
			for _, v := range c[1:] {
				if v.Cmp(lo) < 0 {
					lo = v
				}
				if v.Cmp(hi) > 0 {
					hi = v
				}
			}
			return lo, hi, true
		}
	case "bv2nat":
		return big.NewInt(0), new(big.Int).Sub(new(big.Int).Lsh(big.NewInt(1), uint(t.Args[0].S.W)), big.NewInt(1)), true
	case "mod":
		if t.Args[1].Op == "int" && t.Args[1].Num.Sign() > 0 {
			return big.NewInt(0), new(big.Int).Sub(t.Args[1].Num, big.NewInt(1)), true
		}
	case "div":
		l1, h1, k1 := termBounds(t.Args[0])
		if k1 && t.Args[1].Op == "int" && t.Args[1].Num.Sign() > 0 && l1.Sign() >= 0 {
			return new(big.Int).Div(l1, t.Args[1].Num), new(big.Int).Div(h1, t.Args[1].Num), true
		}
	case "ite":
		l1, h1, k1 := termBounds(t.Args[1])
		l2, h2, k2 := termBounds(t.Args[2])
		if k1 && k2 {
			lo, hi = l1, h1
			if l2.Cmp(lo) < 0 {
				lo = l2
			}
			if h2.Cmp(hi) > 0 {
				hi = h2
			}
			return lo, hi, true
		}
	case "app":
		switch t.Name {
		case "at":
			return big.NewInt(0), big.NewInt(255), true
		case "dbe16":
			return big.NewInt(0), big.NewInt(65535), true
		case "dbe32":
			return big.NewInt(0), big.NewInt(4294967295), true
		case "hd8":
			return big.NewInt(0), big.NewInt(255), true
		case "hd16":
			return big.NewInt(0), big.NewInt(65535), true
		case "hd32":
			return big.NewInt(0), big.NewInt(4294967295), true
		case "len":
			return big.NewInt(0), maxLen, true
		}
	case "const":
		if b, ok := constBounds[t]; ok {
			return b[0], b[1], true
		}
	}
	return nil, nil, false
}

var constBounds = map[*Term][2]*big.Int{}

func boundsOf(lo, hi int64) [2]*big.Int { return [2]*big.Int{big.NewInt(lo), big.NewInt(hi)} }

func (x *Exec) binop(st *State, in ssa.Instruction, o token.Token, a, b Value, xt, rt types.Type) Value {
	switch o {
	case token.EQL:
		return x.valEq(st, a, b, xt)
	case token.NEQ:
		return Not(x.valEq(st, a, b, xt))
	}
	at, ok1 := a.(*Term)
	bt, ok2 := b.(*Term)
	if !ok1 || !ok2 {
		panic(unsupported(fmt.Sprintf("binop %s on %T, %T", o, a, b)))
	}
	if isString(xt) {
		switch o {
		case token.ADD:
			return Cat(at, bt)
		case token.LSS, token.LEQ, token.GTR, token.GEQ:
			return App("strcmp."+o.String(), SBool, at, bt)
		}
	}
	if isFloatT(xt) {
		return x.floatOp(o, at, bt)
	}
	if at.S == SBool {
		switch o {
		case token.LAND, token.AND:
			return And(at, bt)
		case token.LOR, token.OR:
			return Or(at, bt)
		}
	}
	if at.S.IsBV() {
		return x.bvBinop(st, in, o, at, bt, xt, rt)
	}
	_, signed, _ := intInfo(xt)
	if (o == token.SHL || o == token.SHR) && bt.S.IsBV() {
		bt = BV2Int(bt) // shift counts may be of an unsigned (bit-vector) type while the operand is an int
	}
	switch o {
	case token.ADD:
		return x.wrap(Add(at, bt), rt)
	case token.SUB:
		return x.wrap(Sub(at, bt), rt)
	case token.MUL:
		return x.wrap(Mul(at, bt), rt)
	case token.QUO:
		if in != nil {
			x.safety(st, "div", in, Ne(bt, IntLit(0)), "divisor not zero")
		}
		return x.goDiv(at, bt, signed)
	case token.REM:
		if in != nil {
			x.safety(st, "div", in, Ne(bt, IntLit(0)), "divisor not zero")
		}
		return x.goRem(at, bt, signed)
	case token.LSS:
		return Lt(at, bt)
	case token.LEQ:
		return Le(at, bt)
	case token.GTR:
		return Gt(at, bt)
	case token.GEQ:
		return Ge(at, bt)
	case token.SHL:
		if bt.Op == "int" && bt.Num.IsInt64() && bt.Num.Int64() < 64 {
			return x.wrap(Mul(at, Pow2(int(bt.Num.Int64()))), rt)
		}
	case token.SHR:
		if bt.Op == "int" && bt.Num.IsInt64() && bt.Num.Int64() < 64 {
			if l, _, k := x.bounds(at); (k && l.Sign() >= 0) || !signed {
				return Div(at, Pow2(int(bt.Num.Int64())))
			}
			return Div(at, Pow2(int(bt.Num.Int64()))) // floor division == arithmetic shift for negatives too
		}
	case token.AND:
		// x & (2^a - 2^b): a contiguous block of ones from bit b to bit a-1
		for _, pr := range [][2]*Term{{at, bt}, {bt, at}} {
			if a, b, ok := blockMask(pr[1]); ok && !signed && b > 0 {
				return Sub(Mod(pr[0], Pow2(a)), Mod(pr[0], Pow2(b)))
			}
		}
		// x & (2^k - 1)
		if m, ok := maskBits(bt); ok && !signed {
			return Mod(at, Pow2(m))
		}
		if m, ok := maskBits(at); ok && !signed {
			return Mod(bt, Pow2(m))
		}
	}
	// x<<k | y with 0 <= y < 2^k: the bit ranges are disjoint, so the OR is a sum
	if o == token.OR {
		for _, pr := range [][2]*Term{{at, bt}, {bt, at}} {
			hi, lo := pr[0], pr[1]
			if hi.Op == "*" && hi.Args[0].Op == "int" {
				if k, ok := singleBit(hi.Args[0]); ok {
					if l, h, known := x.bounds(lo); known && l.Sign() >= 0 && h.Cmp(new(big.Int).Lsh(big.NewInt(1), uint(k))) < 0 {
						if l2, _, known2 := x.bounds(hi.Args[1]); known2 && l2.Sign() >= 0 {
							return x.wrap(Add(hi, lo), rt)
						}
					}
				}
			}
		}
	}
	// a | b where a is a non-negative multiple of 2^k (a sum of shifted fields) and 0 <= b < 2^k: disjoint bits, a sum
	if o == token.OR {
		for _, pr := range [][2]*Term{{at, bt}, {bt, at}} {
			hi, lo := pr[0], pr[1]
			k := pow2Multiple(hi)
			if k == 0 {
				continue
			}
			if l, h, known := x.bounds(lo); known && l.Sign() >= 0 && h.Cmp(new(big.Int).Lsh(big.NewInt(1), uint(k))) < 0 {
				if l2, _, known2 := x.bounds(hi); known2 && l2.Sign() >= 0 {
					return x.wrap(bigEndianRead(Add(hi, lo)), rt)
				}
			}
		}
	}
	// single-bit masks: x | 2^k, x & 2^k, x &^ 2^k on non-negative values
	if o == token.OR || o == token.AND || o == token.AND_NOT {
		a1, b1 := at, bt
		if k, ok := singleBit(a1); ok && o == token.OR {
			a1, b1 = b1, a1
			_ = k
		}
		if k, ok := singleBit(b1); ok {
			if l, _, known := x.bounds(a1); known && l.Sign() >= 0 {
				set := Eq(Mod(Div(a1, Pow2(k)), IntLit(2)), IntLit(1))
				switch o {
				case token.OR:
					return x.wrap(Ite(set, a1, Add(a1, Pow2(k))), rt)
				case token.AND:
					return Ite(set, Pow2(k), IntLit(0))
				case token.AND_NOT:
					return Ite(set, Sub(a1, Pow2(k)), a1)
				}
			}
		}
	}
	// bit operation not expressible over mathematical integers: uninterpreted (obligations depending on it will not prove)
	x.fail(fmt.Sprintf("bit operation %s in integer mode at %s (use mode bv)", o, x.posOf(in)))
	return App("bitop."+o.String(), SInt, at, bt)
}

func (x *Exec) posOf(in ssa.Instruction) string {
	if in == nil {
		return "?"
	}
	return x.W.pos(in.Pos())
}

// bigEndianRead: at(s,i)*2^(8(n-1)) + ... + at(s,i+n-1) for n = 2, 4, 8 consecutive octets of one sequence is what
// binary.BigEndian.Uint16/32/64 computes (that is its source text); written by hand it is given the same normal form,
// hdN(drop(s, i)), so that contracts stated over the one form apply to the other. Anything else is returned unchanged.
func bigEndianRead(sum *Term) *Term {
	if sum.Op != "+" {
		return sum
	}
	n := len(sum.Args)
	if n != 2 && n != 4 && n != 8 {
		return sum
	}
	parts := make([]*Term, n) // parts[j]: the at() term with coefficient 2^(8j)
	for _, a := range sum.Args {
		coef, t := big.NewInt(1), a
		if a.Op == "*" && len(a.Args) == 2 && a.Args[0].Op == "int" {
			coef, t = a.Args[0].Num, a.Args[1]
		}
		if !(t.Op == "app" && t.Name == "at") {
			return sum
		}
		if coef.Sign() <= 0 || new(big.Int).And(coef, new(big.Int).Sub(coef, big.NewInt(1))).Sign() != 0 {
			return sum
		}
		sh := coef.BitLen() - 1
		if sh%8 != 0 || sh/8 >= n || parts[sh/8] != nil {
			return sum
		}
		parts[sh/8] = t
	}
	first := parts[n-1] // most significant octet: lowest index
	for j := 0; j < n; j++ {
		p := parts[n-1-j]
		if p == nil || p.Args[0] != first.Args[0] || p.Args[1] != Add(first.Args[1], IntLit(int64(j))) {
			return sum
		}
	}
	return App(fmt.Sprintf("hd%d", 8*n), SInt, Drop(first.Args[0], first.Args[1]))
}

// pow2Multiple: the largest k (capped at 63) such that t is, syntactically, a multiple of 2^k.
func pow2Multiple(t *Term) int {
	switch t.Op {
	case "int":
		if t.Num.Sign() == 0 {
			return 63
		}
		if k := int(t.Num.TrailingZeroBits()); k < 63 {
			return k
		}
		return 63
	case "*":
		k := 0
		for _, a := range t.Args {
			k += pow2Multiple(a)
		}
		if k > 63 {
			k = 63
		}
		return k
	case "+":
		k := 63
		for _, a := range t.Args {
			if m := pow2Multiple(a); m < k {
				k = m
			}
		}
		return k
	}
	return 0
}

// blockMask recognises 2^a - 2^b (a > b >= 0).
func blockMask(t *Term) (int, int, bool) {
	if t.Op != "int" || t.Num.Sign() <= 0 {
		return 0, 0, false
	}
	b := int(t.Num.TrailingZeroBits())
	hi := new(big.Int).Rsh(t.Num, uint(b))
	n := new(big.Int).Add(hi, big.NewInt(1))
	if new(big.Int).And(n, hi).Sign() == 0 {
		return b + n.BitLen() - 1, b, true
	}
	return 0, 0, false
}

func singleBit(t *Term) (int, bool) {
	if t.Op != "int" || t.Num.Sign() <= 0 {
		return 0, false
	}
	if new(big.Int).And(t.Num, new(big.Int).Sub(t.Num, big.NewInt(1))).Sign() == 0 {
		return t.Num.BitLen() - 1, true
	}
	return 0, false
}

func maskBits(t *Term) (int, bool) {
	if t.Op != "int" || t.Num.Sign() <= 0 {
		return 0, false
	}
	n := new(big.Int).Add(t.Num, big.NewInt(1))
	if n.BitLen() > 0 && new(big.Int).And(n, t.Num).Sign() == 0 {
		return n.BitLen() - 1, true
	}
	return 0, false
}

func (x *Exec) goDiv(a, b *Term, signed bool) *Term {
	la, _, ka := x.bounds(a)
	lb, _, kb := x.bounds(b)
	if !signed || (ka && la.Sign() >= 0 && kb && lb.Sign() >= 0) {
		return Div(a, b)
	}
	// truncated division
	abs := func(t *Term) *Term { return Ite(Ge(t, IntLit(0)), t, Neg(t)) }
	q := Div(abs(a), abs(b))
	return Ite(Eq(Ge(a, IntLit(0)), Ge(b, IntLit(0))), q, Neg(q))
}

func (x *Exec) goRem(a, b *Term, signed bool) *Term {
	la, _, ka := x.bounds(a)
	lb, _, kb := x.bounds(b)
	if !signed || (ka && la.Sign() >= 0 && kb && lb.Sign() >= 0) {
		return Mod(a, b)
	}
	return Sub(a, Mul(b, x.goDiv(a, b, signed)))
}

func (x *Exec) floatOp(o token.Token, a, b *Term) Value {
	if o == token.QUO && a.Op == "app" && a.Name == "float.durdiv" && b.Op == "app" && b.Name == "float.lit" && b.Args[0].Op == "int" && b.Args[0].Num.Sign() > 0 {
		return App("float.durdiv", SInt, a.Args[0], Mul(a.Args[1], b.Args[0]))
	}
	switch o {
	case token.LSS, token.LEQ, token.GTR, token.GEQ:
		return App("float."+o.String(), SBool, a, b)
	}
	return App("float."+o.String(), SInt, a, b)
}

func (x *Exec) bvBinop(st *State, in ssa.Instruction, o token.Token, a, b *Term, xt, rt types.Type) Value {
	_, signed, _ := intInfo(xt)
	// shifts may have operands of different widths
	if (o == token.SHL || o == token.SHR) && b.S == SInt {
		b = Int2BV(b, a.S.W)
	}
	if o == token.SHL || o == token.SHR {
		if b.S.W != a.S.W {
			b = BVZeroExt(b, a.S.W)
			if b.S.W != a.S.W {
				b = BVExtract(a.S.W-1, 0, b)
			}
		}
	}
	switch o {
	case token.ADD:
		return BVOp("bvadd", a, b)
	case token.SUB:
		return BVOp("bvsub", a, b)
	case token.MUL:
		return BVOp("bvmul", a, b)
	case token.AND:
		return BVOp("bvand", a, b)
	case token.OR:
		return BVOp("bvor", a, b)
	case token.XOR:
		return BVOp("bvxor", a, b)
	case token.AND_NOT:
		return BVOp("bvand", a, BVNot(b))
	case token.SHL:
		return BVOp("bvshl", a, b)
	case token.SHR:
		if signed {
			return BVOp("bvashr", a, b)
		}
		return BVOp("bvlshr", a, b)
	case token.QUO:
		x.safety(st, "div", in, Ne(b, BVLit(big.NewInt(0), b.S.W)), "divisor not zero")
		if signed {
			return BVOp("bvsdiv", a, b)
		}
		return BVOp("bvudiv", a, b)
	case token.REM:
		x.safety(st, "div", in, Ne(b, BVLit(big.NewInt(0), b.S.W)), "divisor not zero")
		if signed {
			return BVOp("bvsrem", a, b)
		}
		return BVOp("bvurem", a, b)
	case token.LSS:
		if signed {
			return BVCmp("bvslt", a, b)
		}
		return BVCmp("bvult", a, b)
	case token.LEQ:
		if signed {
			return BVCmp("bvsle", a, b)
		}
		return BVCmp("bvule", a, b)
	case token.GTR:
		if signed {
			return BVCmp("bvslt", b, a)
		}
		return BVCmp("bvult", b, a)
	case token.GEQ:
		if signed {
			return BVCmp("bvsle", b, a)
		}
		return BVCmp("bvule", b, a)
	}
	panic(unsupported("bv binop " + o.String()))
}

func (x *Exec) valEq(st *State, a, b Value, t types.Type) *Term {
	switch av := a.(type) {
	case *Term:
		bt := b.(*Term)
		if av.S != bt.S {
			if av.S.IsBV() && bt.S == SInt {
				bt = Int2BV(bt, av.S.W)
			} else if bt.S.IsBV() && av.S == SInt {
				av = Int2BV(av, bt.S.W)
			}
		}
		return Eq(av, bt)
	case *PtrVal:
		bp := b.(*PtrVal)
		if av.Obj == nil || bp.Obj == nil {
			// comparison with nil
			if av.Obj == nil && bp.Obj == nil {
				return Eq(av.Nil, bp.Nil)
			}
			if av.Obj == nil {
				return Or(And(av.Nil, bp.Nil))
			}
			return And(av.Nil, bp.Nil)
		}
		same := av.Obj == bp.Obj && fmt.Sprint(av.Path) == fmt.Sprint(bp.Path)
		if same {
			return Or(And(av.Nil, bp.Nil), And(Not(av.Nil), Not(bp.Nil)))
		}
		if av.Obj.Opaque || bp.Obj.Opaque {
			// identity of a havocked / returned pointer is unknown: equal iff both nil, or both non-nil and "same" (unconstrained)
			// (one unknown per pair of objects, so that an equality assumed from a callee's contract is the one asked for later)
			ia, ib := int64(av.Obj.ID), int64(bp.Obj.ID)
			if ia > ib {
				ia, ib = ib, ia
			}
			pa, pb := fmt.Sprint(av.Path), fmt.Sprint(bp.Path)
			if int64(av.Obj.ID) != ia {
				pa, pb = pb, pa
			}
			same := Const(fmt.Sprintf("ptreq!%d%s!%d%s", ia, sanitize(pa), ib, sanitize(pb)), SBool)
			return Or(And(av.Nil, bp.Nil), And(Not(av.Nil), Not(bp.Nil), same))
		}
		return And(av.Nil, bp.Nil)
	case *IfaceVal:
		bi := b.(*IfaceVal)
		return x.ifaceEq(st, av, bi)
	case *SliceVal:
		bs := b.(*SliceVal)
		// only comparison with nil is legal Go
		if bs.Nil.IsTrue() {
			return av.Nil
		}
		if av.Nil.IsTrue() {
			return bs.Nil
		}
	case *MapVal:
		bm := b.(*MapVal)
		ma := x.mapC(st, av.Obj)
		mb := x.mapC(st, bm.Obj)
		if mb.Nil.IsTrue() {
			return ma.Nil
		}
		if ma.Nil.IsTrue() {
			return mb.Nil
		}
	case *StructVal:
		bs := b.(*StructVal)
		var cs []*Term
		st0 := under(av.Typ).(*types.Struct)
		for i := range av.Fields {
			cs = append(cs, x.valEq(st, av.Fields[i], bs.Fields[i], st0.Field(i).Type()))
		}
		return And(cs...)
	case *ArrVal:
		ba := b.(*ArrVal)
		if av.Bytes != nil && ba.Bytes != nil {
			return Eq(av.Bytes, ba.Bytes)
		}
		var cs []*Term
		for i := range av.Elems {
			cs = append(cs, x.valEq(st, av.Elems[i], ba.Elems[i], av.Typ.Elem()))
		}
		return And(cs...)
	case *FuncVal:
		bf := b.(*FuncVal)
		if ta, ok := x.funcTerm(av); ok {
			if tb, ok := x.funcTerm(bf); ok {
				return Eq(ta, tb)
			}
		}
		if bf.Fn == nil && bf.Name == "nil" {
			return BoolLit(av.Fn == nil && av.Name == "nil")
		}
	}
	panic(unsupported(fmt.Sprintf("equality on %T / %T", a, b)))
}

func (x *Exec) ifaceIsNil(v *IfaceVal) *Term {
	if v.Dyn != nil {
		return TFalse
	}
	if v.Sym != nil {
		return Eq(v.Sym, IntLit(0))
	}
	return TTrue
}

func (x *Exec) ifaceEq(st *State, a, b *IfaceVal) *Term {
	if a.Dyn == nil && a.Sym != nil && b.Dyn == nil && b.Sym != nil {
		return Eq(a.Sym, b.Sym)
	}
	if a.Dyn == nil && a.Sym == nil {
		return x.ifaceIsNil(b)
	}
	if b.Dyn == nil && b.Sym == nil {
		return x.ifaceIsNil(a)
	}
	if a.Dyn != nil && b.Dyn != nil {
		if !types.Identical(a.Dyn, b.Dyn) {
			return TFalse
		}
		return x.valEq(st, a.V, b.V, a.Dyn)
	}
	// concrete vs symbolic
	if a.Dyn != nil {
		a, b = b, a
	}
	// a symbolic, b concrete: equal only if a denotes that value; be conservative using an uninterpreted relation
	if b.Dyn != nil {
		if _, isPtr := b.V.(*PtrVal); isPtr {
			// a concrete pointer-typed error is never one of the package-level sentinel errors
			return And(Ne(a.Sym, IntLit(0)), Eq(App("errtag", SInt, a.Sym), IntLit(0)), Fresh("ifaceeq", SBool))
		}
		if bt, ok := b.V.(*Term); ok && (bt.S == SInt || bt.S.IsBV()) && isIntKinded(b.Dyn) {
			// e.g. error compared with a concrete named-int error value (smpp.CMDStatus): identity by tag+value
			return Eq(a.Sym, x.ifaceTerm(st, b.Dyn, bt))
		}
	}
	return And(Ne(a.Sym, IntLit(0)), Fresh("ifaceeq", SBool))
}

// ---------- conversions

func (x *Exec) convert(st *State, in ssa.Instruction, v Value, from, to types.Type) Value {
	switch {
	case isString(to) && isSliceOfByte(from):
		s := v.(*SliceVal)
		c := x.sliceBytes(st, s)
		if x.arr {
			st.Assume(And(Eq(App("len", SInt, c), s.Len), Le(IntLit(0), s.Len)))
		}
		x.countAllocN(st, Len(c))
		return c
	case isSliceOfByte(to) && isString(from):
		c := v.(*Term)
		x.countAllocN(st, Len(c))
		return x.newByteSlice(st, c, "conv")
	case isString(to) && isIntegerT(from):
		// string(rune)
		r := v.(*Term)
		if r.S.IsBV() {
			r = BV2Int(r)
		}
		return App("utf8enc", SBytes, r)
	case isSliceOfRune(to) && isString(from):
		c := v.(*Term)
		reg := newObj(ObjRegion, types.Typ[types.Int32], "runes", true)
		n := App("runecount", SInt, c)
		st.Assume(And(Le(IntLit(0), n), Le(n, Len(c))))
		st.Heap[reg] = &RegionVal{Arr: App("runes", SArr(SInt, x.elemSort(types.Typ[types.Int32])), c), Len: n}
		x.countAllocN(st, Mul(IntLit(4), n))
		return &SliceVal{Reg: reg, Off: IntLit(0), Len: n, Cap: n, Nil: TFalse, Elt: types.Typ[types.Int32]}
	case isString(to) && isSliceOfRune(from):
		s := v.(*SliceVal)
		rv := x.region(st, s.Reg)
		return App("runes2str", SBytes, rv.Arr, s.Off, s.Len)
	}
	t, ok := v.(*Term)
	if !ok {
		panic(unsupported(fmt.Sprintf("conversion %s -> %s", from, to)))
	}
	if isFloatT(to) || isFloatT(from) {
		if isFloatT(to) && isFloatT(from) {
			return t
		}
		if isFloatT(to) {
			if t.S.IsBV() {
				t = BV2Int(t)
			}
			return App("float.of", SInt, t)
		}
		if t.Op == "app" && t.Name == "float.durdiv" {
			d := t.Args[0]
			// range of A-FLOAT: below 4096 hours the truncated float quotient is the integer quotient
			st.Assume(And(Le(IntLit(0), d), Lt(d, IntLit(4096*3600e9))))
			return Div(d, t.Args[1])
		}
		if t.Op == "app" && t.Name == "float.ceil7n8" {
			n := t.Args[0]
			st.Assume(Lt(n, IntLit(4194304))) // range of A-CEIL
			return Div(Add(Mul(IntLit(7), n), IntLit(7)), IntLit(8))
		}
		r := App("float.toint", SInt, t)
		x.fail("float to int conversion at " + x.posOf(in) + " (not modelled)")
		return r
	}
	fb, fs, ok1 := intInfo(from)
	tb, tsgn, ok2 := intInfo(to)
	if ok1 && ok2 && x.bv {
		_, fromBV := x.bvOf(from)
		tbits, toBV := x.bvOf(to)
		switch {
		case fromBV && !toBV:
			if fs {
				// two's complement: the unsigned reading minus 2^bits when the sign bit is set
				u := BV2Int(t)
				half := new(big.Int).Lsh(big.NewInt(1), uint(fb-1))
				full := new(big.Int).Lsh(big.NewInt(1), uint(fb))
				return Ite(Ge(u, IntBig(half)), Sub(u, IntBig(full)), u)
			}
			return BV2Int(t)
		case !fromBV && toBV:
			return Int2BV(t, tbits)
		}
	}
	if ok1 && ok2 {
		if t.S.IsBV() {
			switch {
			case tb == fb:
				return t
			case tb < fb:
				return BVExtract(tb-1, 0, t)
			case fs:
				return mk(&Term{Op: "sext", Name: fmt.Sprint(tb - fb), Args: []*Term{t}, S: SBV(tb)})
			default:
				return BVZeroExt(t, tb)
			}
		}
		_ = tsgn
		return x.wrap(t, to)
	}
	panic(unsupported(fmt.Sprintf("conversion %s -> %s", from, to)))
}

func isSliceOfByte(t types.Type) bool {
	s, ok := under(t).(*types.Slice)
	return ok && isByte(s.Elem())
}
func isSliceOfRune(t types.Type) bool {
	s, ok := under(t).(*types.Slice)
	if !ok {
		return false
	}
	b, ok := under(s.Elem()).(*types.Basic)
	return ok && b.Kind() == types.Int32
}
func isIntegerT(t types.Type) bool { _, _, ok := intInfo(t); return ok }

func (x *Exec) typeAssert(st *State, fr *Frame, v *ssa.TypeAssert) Value {
	iv := x.val(st, fr, v.X).(*IfaceVal)
	if _, isIface := under(v.AssertedType).(*types.Interface); isIface {
		// interface-to-interface assertion
		if iv.Dyn != nil {
			ok := types.Implements(iv.Dyn, under(v.AssertedType).(*types.Interface))
			if v.CommaOk {
				var r Value = iv
				if !ok {
					r = x.zeroValue(st, v.AssertedType)
				}
				return &TupleVal{Vs: []Value{r, BoolLit(ok)}}
			}
			x.safety(st, "assert", v, BoolLit(ok), "type assertion succeeds")
			return iv
		}
		okT := Fresh("assert.ok", SBool)
		st.Assume(Implies(okT, Not(x.ifaceIsNil(iv))))
		if v.CommaOk {
			return &TupleVal{Vs: []Value{iv, okT}}
		}
		x.safety(st, "assert", v, okT, "type assertion succeeds")
		return iv
	}
	if iv.Dyn != nil {
		ok := types.Identical(iv.Dyn, v.AssertedType)
		var r Value
		if ok {
			r = iv.V
		} else {
			r = x.zeroValue(st, v.AssertedType)
		}
		if v.CommaOk {
			return &TupleVal{Vs: []Value{r, BoolLit(ok)}}
		}
		x.safety(st, "assert", v, BoolLit(ok), "type assertion succeeds")
		return r
	}
	if iv.Sym != nil && isIntKinded(v.AssertedType) {
		okT := x.dynIs(st, iv, v.AssertedType)
		r := x.dynValue(st, iv, v.AssertedType)
		if v.CommaOk {
			return &TupleVal{Vs: []Value{r, okT}}
		}
		x.safety(st, "assert", v, okT, "type assertion succeeds")
		return r
	}
	okT := Fresh("assert.ok", SBool)
	st.Assume(Implies(okT, Not(x.ifaceIsNil(iv))))
	r := x.freshValue(st, v.AssertedType, "asserted", false)
	if v.CommaOk {
		return &TupleVal{Vs: []Value{r, okT}}
	}
	x.safety(st, "assert", v, okT, "type assertion succeeds")
	return r
}

// ---------- slices, indexing

func (x *Exec) toInt(t *Term) *Term {
	if t.S.IsBV() {
		return BV2Int(t)
	}
	return t
}

func (x *Exec) indexAddr(st *State, fr *Frame, v *ssa.IndexAddr) Value {
	base := x.val(st, fr, v.X)
	idx := x.toInt(x.val(st, fr, v.Index).(*Term))
	switch b := base.(type) {
	case *SliceVal:
		x.safety(st, "index", v, And(Le(IntLit(0), idx), Lt(idx, b.Len)), "index in range")
		return &PtrVal{Obj: b.Reg, Idx: Add(b.Off, idx), Nil: TFalse}
	case *PtrVal:
		// pointer to array
		x.safety(st, "nil", v, Not(b.Nil), "array pointer not nil")
		if b.Obj.Kind == ObjRegion && b.ArrT != nil {
			x.safety(st, "index", v, And(Le(IntLit(0), idx), Lt(idx, IntLit(b.ArrT.Len()))), "array index in range")
			return &PtrVal{Obj: b.Obj, Idx: idx, Nil: TFalse}
		}
		at := under(b.Obj.Typ)
		if len(b.Path) > 0 {
			at = under(pathType(b.Obj.Typ, b.Path))
		}
		arr := at.(*types.Array)
		x.safety(st, "index", v, And(Le(IntLit(0), idx), Lt(idx, IntLit(arr.Len()))), "array index in range")
		if idx.Op == "int" {
			cur := getPath(x.cellValue(st, b.Obj), b.Path).(*ArrVal)
			if cur.Bytes != nil {
				return &PtrVal{Obj: b.Obj, Path: b.Path, Idx: idx, Nil: TFalse, InArr: true}
			}
			return &PtrVal{Obj: b.Obj, Path: append(append([]int(nil), b.Path...), int(idx.Num.Int64())), Nil: TFalse}
		}
		if cur := getPath(x.cellValue(st, b.Obj), b.Path).(*ArrVal); cur.Bytes != nil {
			return &PtrVal{Obj: b.Obj, Path: b.Path, Idx: idx, Nil: TFalse, InArr: true}
		}
		panic(unsupported("symbolic index into array variable"))
	}
	panic(unsupported(fmt.Sprintf("IndexAddr on %T", base)))
}

func pathType(t types.Type, path []int) types.Type {
	for _, i := range path {
		switch u := under(t).(type) {
		case *types.Struct:
			t = u.Field(i).Type()
		case *types.Array:
			t = u.Elem()
		}
	}
	return t
}

func (x *Exec) indexValue(st *State, fr *Frame, v *ssa.Index) Value {
	base := x.val(st, fr, v.X)
	idx := x.toInt(x.val(st, fr, v.Index).(*Term))
	switch b := base.(type) {
	case *Term: // string
		x.safety(st, "index", v, And(Le(IntLit(0), idx), Lt(idx, Len(b))), "string index in range")
		return x.byteAt(b, idx)
	case *ArrVal:
		x.safety(st, "index", v, And(Le(IntLit(0), idx), Lt(idx, IntLit(b.Typ.Len()))), "array index in range")
		if b.Bytes != nil {
			return x.byteAt(b.Bytes, idx)
		}
		if idx.Op == "int" {
			return b.Elems[idx.Num.Int64()]
		}
	}
	panic(unsupported(fmt.Sprintf("Index on %T", base)))
}

func (x *Exec) sliceOp(st *State, fr *Frame, v *ssa.Slice) Value {
	base := x.val(st, fr, v.X)
	var lo, hi *Term
	if v.Low != nil {
		lo = x.toInt(x.val(st, fr, v.Low).(*Term))
	} else {
		lo = IntLit(0)
	}
	switch b := base.(type) {
	case *Term: // string
		if v.High != nil {
			hi = x.toInt(x.val(st, fr, v.High).(*Term))
		} else {
			hi = Len(b)
		}
		x.safety(st, "slice", v, And(Le(IntLit(0), lo), Le(lo, hi), Le(hi, Len(b))), "string slice bounds in range")
		return Ext(b, lo, hi)
	case *SliceVal:
		if v.High != nil {
			hi = x.toInt(x.val(st, fr, v.High).(*Term))
		} else {
			hi = b.Len
		}
		x.safety(st, "slice", v, And(Le(IntLit(0), lo), Le(lo, hi), Le(hi, b.Cap)), "slice bounds in range (0 <= lo <= hi <= cap)")
		return &SliceVal{Reg: b.Reg, Off: Add(b.Off, lo), Len: Sub(hi, lo), Cap: Sub(b.Cap, lo), Nil: And(b.Nil), Elt: b.Elt}
	case *PtrVal:
		// slicing a pointer to array: arr[:]
		x.safety(st, "nil", v, Not(b.Nil), "array pointer not nil")
		if b.Obj.Kind == ObjRegion && b.ArrT != nil {
			n := IntLit(b.ArrT.Len())
			if v.High != nil {
				hi = x.toInt(x.val(st, fr, v.High).(*Term))
			} else {
				hi = n
			}
			x.safety(st, "slice", v, And(Le(IntLit(0), lo), Le(lo, hi), Le(hi, n)), "array slice bounds in range")
			return &SliceVal{Reg: b.Obj, Off: lo, Len: Sub(hi, lo), Cap: Sub(n, lo), Nil: TFalse, Elt: b.ArrT.Elem()}
		}
		av := getPath(x.cellValue(st, b.Obj), b.Path).(*ArrVal)
		n := IntLit(av.Typ.Len())
		if v.High != nil {
			hi = x.toInt(x.val(st, fr, v.High).(*Term))
		} else {
			hi = n
		}
		x.safety(st, "slice", v, And(Le(IntLit(0), lo), Le(lo, hi), Le(hi, n)), "array slice bounds in range")
		if av.Bytes != nil {
			// view of the array as a region (aliasing with the array variable is not tracked: copy semantics)
			s := x.newByteSlice(st, av.Bytes, "arrview")
			// ownership follows the array: a view of a package-level or caller-owned array is not memory this call owns
			if x.isGlobalObj(b.Obj) || b.Glob != "" || !b.Obj.Fresh || b.Obj.Pool {
				s.Reg.Fresh = false
				s.Reg.FreshT = nil
			} else if b.Obj.FreshT != nil {
				s.Reg.FreshT = b.Obj.FreshT
			}
			return &SliceVal{Reg: s.Reg, Off: lo, Len: Sub(hi, lo), Cap: Sub(n, lo), Nil: TFalse, Elt: s.Elt}
		}
		panic(unsupported("slice of non-byte array"))
	}
	panic(unsupported(fmt.Sprintf("Slice on %T", base)))
}

func (x *Exec) makeSlice(st *State, fr *Frame, v *ssa.MakeSlice) Value {
	ln := x.toInt(x.val(st, fr, v.Len).(*Term))
	cp := x.toInt(x.val(st, fr, v.Cap).(*Term))
	elt := under(v.Type()).(*types.Slice).Elem()
	x.safety(st, "make", v, And(Le(IntLit(0), ln), Le(ln, cp)), "make: 0 <= len <= cap")
	esz := types.SizesFor("gc", "amd64").Sizeof(elt)
	x.countAllocN(st, Mul(IntLit(esz), cp))
	reg := newObj(ObjRegion, elt, v.Name(), true)
	if isByte(elt) && !x.arr {
		// region content spans the whole capacity
		var c *Term
		if lo, _, ok := termBounds(cp); ok && lo.Sign() >= 0 {
			c = Zeros(cp) // Len(c) is cp syntactically
		} else {
			c = Fresh("mk", SBytes)
			st.Assume(Eq(c, Zeros(cp)))
			st.Assume(Eq(App("len", SInt, c), cp))
		}
		st.Heap[reg] = &RegionVal{Bytes: c}
		if ln == cp {
			return &SliceVal{Reg: reg, Off: IntLit(0), Len: Len(c), Cap: Len(c), Nil: TFalse, Elt: elt}
		}
		return &SliceVal{Reg: reg, Off: IntLit(0), Len: ln, Cap: Len(c), Nil: TFalse, Elt: elt}
	} else {
		a := Fresh("mk", SArr(SInt, x.elemSort(elt)))
		// zero-initialised
		j := Const("j!q", SInt)
		var z *Term
		switch es := x.elemSort(elt); {
		case es == SInt:
			z = IntLit(0)
		case es == SBytes:
			z = TEps
		case es == SBool:
			z = TFalse
		case es.IsBV():
			z = BVLit(big.NewInt(0), es.W)
		}
		if z != nil {
			st.Assume(Forall([]*Term{j}, Eq(Select(a, j), z), Select(a, j)))
		}
		st.Heap[reg] = &RegionVal{Arr: a, Len: cp}
	}
	return &SliceVal{Reg: reg, Off: IntLit(0), Len: ln, Cap: cp, Nil: TFalse, Elt: elt}
}

// ---------- sorting helper for deterministic output
func sortObls(os []*Obligation) {
	sort.SliceStable(os, func(i, j int) bool { return os[i].Name < os[j].Name })
}
