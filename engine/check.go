package main

// `govc check <property> <tier>`: the registered entry point. Rebuilds everything from /repo's
// working tree, generates and discharges the obligations of one property, handles known findings,
// vacuity guards, evidence and replay files.

import (
	"encoding/json"
	"fmt"
	"os"
	"os/exec"
	"path/filepath"
	"sort"
	"strings"
	"time"
)

type KnownFinding struct {
	ID          string   `json:"id"`
	Property    string   `json:"property"`
	Properties  []string `json:"properties"`
	Obligation  string   `json:"obligation"`     // exact obligation name
	Obligations []string `json:"obligations"`    // or several
	Residual    string   `json:"residual_guard"` // contract-language guard under which the obligation must still hold
	What        string   `json:"what"`
	Witness     *Witness `json:"witness"`
}

type Witness struct {
	Package string `json:"package"` // package directory relative to the module root ("" = root)
	File    string `json:"file"`    // file under /verif/replay/known
	Test    string `json:"test"`    // test function in that file; logs "WITNESS <id> MANIFESTS|ABSENT ..."
}

type FixedFinding struct {
	ID         string   `json:"id"`
	Property   string   `json:"property"`
	Properties []string `json:"properties"`
	Commit     string   `json:"commit"`
	Obligation string   `json:"obligation"`
	What       string   `json:"what"`
	Witness    *Witness `json:"witness"`
}

func (k *FixedFinding) props() []string {
	if len(k.Properties) > 0 {
		return k.Properties
	}
	return []string{k.Property}
}

type KnownFile struct {
	Findings []*KnownFinding `json:"findings"`
	Fixed    []*FixedFinding `json:"fixed"`
}

func (k *KnownFinding) props() []string {
	if len(k.Properties) > 0 {
		return k.Properties
	}
	return []string{k.Property}
}

func (k *KnownFinding) names() []string {
	if len(k.Obligations) > 0 {
		return k.Obligations
	}
	return []string{k.Obligation}
}

func loadKnown(root string) (*KnownFile, error) {
	b, err := os.ReadFile(filepath.Join(root, "known_findings.json"))
	if err != nil {
		if os.IsNotExist(err) {
			return &KnownFile{}, nil
		}
		return nil, err
	}
	var kf KnownFile
	if err := json.Unmarshal(b, &kf); err != nil {
		return nil, fmt.Errorf("known_findings.json: %v", err)
	}
	return &kf, nil
}

func hasProp(ps []string, p string) bool {
	for _, x := range ps {
		if x == p {
			return true
		}
	}
	return false
}

func specMentions(fs *FuncSpec, prop string) bool {
	if hasProp(fs.Props, prop) {
		return true
	}
	for _, b := range fs.Behaviors {
		if behMentions(fs, b, prop) {
			return true
		}
	}
	return false
}

func behMentions(fs *FuncSpec, b *Behavior, prop string) bool {
	if hasProp(b.Props, prop) {
		return true
	}
	if len(b.Props) == 0 && hasProp(fs.Props, prop) {
		return true
	}
	for _, c := range b.Ensures {
		if hasProp(c.Props, prop) {
			return true
		}
	}
	return false
}

type evidence struct {
	PropertyID  string                 `json:"property_id"`
	Tier        string                 `json:"tier"`
	Seed        int                    `json:"seed"`
	Level       string                 `json:"level"`
	Coverage    map[string]interface{} `json:"coverage"`
	Assumptions []string               `json:"assumptions"`
	WallS       float64                `json:"wall_s"`
	Violations  int                    `json:"violations"`
}

func cmdCheck(repo, root string, args []string) int {
	if len(args) < 1 {
		fmt.Fprintln(os.Stderr, "usage: govc check <property> [quick|thorough]")
		return 2
	}
	prop := args[0]
	tier := os.Getenv("VERIF_TIER")
	if len(args) > 1 {
		tier = args[1]
	}
	if tier == "" {
		tier = "quick"
	}
	seed := 0
	fmt.Sscanf(os.Getenv("VERIF_SEED"), "%d", &seed)
	t0 := time.Now()
	timeout := 20 * time.Second
	if tier == "thorough" {
		timeout = 60 * time.Second
	}
	evPath := filepath.Join(evidenceDir(root), prop+".json")
	os.MkdirAll(filepath.Join(evidenceDir(root), "replay"), 0o755)
	os.Remove(evPath)
	fault := func(msg string) int {
		fmt.Fprintln(os.Stderr, "govc: engine fault:", msg)
		ev := &evidence{PropertyID: prop, Tier: tier, Seed: seed, Level: "other", WallS: time.Since(t0).Seconds(),
			Coverage: map[string]interface{}{"explanation": "engine fault, nothing was decided: " + msg}}
		writeJSON(evPath, ev)
		return 2
	}
	known, err := loadKnown(root)
	if err != nil {
		return fault(err.Error())
	}
	w, err := LoadWorld(repo, root)
	if err != nil {
		// a tree that does not load is not something this check can decide
		return fault("loading /repo: " + err.Error())
	}
	w.Known = map[string]*KnownFinding{}
	// findings recorded against other properties: their obligations can enter through the dependency closure; they are
	// neither violations of this property nor findings of it (reported in evidence as assumed-with-finding)
	otherKnown := map[string]*KnownFinding{}
	for _, k := range known.Findings {
		if hasProp(k.props(), prop) {
			for _, n := range k.names() {
				w.Known[n] = k
			}
		} else {
			for _, n := range k.names() {
				otherKnown[n] = k
			}
		}
	}
	w.Covers = tier == "thorough"
	loadS := time.Since(t0).Seconds()
	// the theory layer: every T1 lemma is re-proved from T0 + observer definitions on each run
	lemRes := proveLemmas(theories["T0"], timeout)
	var obls []*Obligation
	var vac []*Obligation
	var covers []*Obligation
	var genErrs []string
	assumed := map[string]bool{}
	funcs := []string{}
	nBound := 0
	// Pass 1: every function whose contract names the property, restricted to the clauses tagged with it.
	// Pass 2 (dependency closure): a modular proof of those clauses assumed the whole contract of every callee it met,
	// so each such callee contract is verified in full (all clauses, all behaviours), transitively; otherwise a change
	// that breaks only a callee's clause would leave this property's check silent although its proof no longer stands.
	type fres struct {
		rep *FuncReport
		all bool
	}
	results := map[string]*fres{}
	var work []string
	need := func(rep *FuncReport) {
		for c := range rep.Callees {
			if r := results[c]; r == nil || !r.all {
				work = append(work, c)
			}
		}
	}
	for _, k := range sortedKeys(w.Specs) {
		fs := w.Specs[k]
		if !specMentions(fs, prop) {
			// a table-derived contract gets its clauses (and their property tags) only once it is bound to its function; if
			// the function is gone or its receiver form changed, nothing was synthesised and the contract would silently
			// drop out of every check: report it under the properties its directive stands for
			if fs.Layout != "" && w.LookupFunc(fs) == nil && layoutDirectiveServes(fs.Layout, prop) {
				genErrs = append(genErrs, shortKey(k)+": contract does not bind: no function "+fs.Key+" with this receiver form in the current tree (layout "+fs.Layout+")")
			}
			continue
		}
		w.OnlyProp = prop
		rep := w.VerifyFunc(fs)
		results[k] = &fres{rep: rep}
	}
	for _, k := range sortedKeys2(results) {
		need(results[k].rep)
	}
	nDep := 0
	for len(work) > 0 {
		sort.Strings(work)
		k := work[0]
		work = work[1:]
		if r := results[k]; r != nil && r.all {
			continue
		}
		fs := w.Specs[k]
		if fs == nil {
			continue
		}
		w.OnlyProp = ""
		rep := w.VerifyFunc(fs)
		results[k] = &fres{rep: rep, all: true}
		nDep++
		need(rep)
	}
	w.OnlyProp = prop
	depFuncs := []string{}
	for _, k := range sortedKeys2(results) {
		r := results[k]
		rep := r.rep
		nBound++
		if r.all {
			depFuncs = append(depFuncs, shortKey(k))
		}
		funcs = append(funcs, shortKey(k))
		for a := range rep.Assumed {
			assumed[a] = true
		}
		for _, e := range rep.Errors {
			genErrs = append(genErrs, shortKey(k)+": "+e)
		}
		for _, o := range rep.Obls {
			if r.all || hasProp(o.Props, prop) {
				obls = append(obls, o)
			}
		}
		vac = append(vac, rep.Vacuity...)
		covers = append(covers, rep.Covers...)
	}
	for _, l := range w.Lemmas {
		if !hasProp(l.Props, prop) {
			continue
		}
		rep := w.VerifyLemma(l)
		funcs = append(funcs, shortKey(rep.Key))
		for a := range rep.Assumed {
			assumed[a] = true
		}
		for _, e := range rep.Errors {
			genErrs = append(genErrs, shortKey(rep.Key)+": "+e)
		}
		obls = append(obls, rep.Obls...)
		vac = append(vac, rep.Vacuity...)
	}
	if rr := w.VerifyRecDefs(prop); len(rr.Obls)+len(rr.Errors) > 0 {
		// the inductive properties of recursive spec functions are premises of whatever uses them
		usesRec := false
		for _, o := range obls {
			for _, f := range append(o.Facts, o.Goal) {
				if f != nil && strings.Contains(f.String(), "rec.") {
					usesRec = true
					break
				}
			}
			if usesRec {
				break
			}
		}
		if usesRec {
			obls = append(obls, rr.Obls...)
			for _, e := range rr.Errors {
				genErrs = append(genErrs, e)
			}
		}
	}
	usesGSM7 := prop == "C08"
	for key := range results {
		if strings.Contains(key, "/gsm7encoding.") {
			usesGSM7 = true // contracts of that package speak about the alphabet through its lookup tables
		}
	}
	if usesGSM7 {
		obls = append(obls, w.gsm7TableObligations(root)...)
	}
	// trusted wrapper contracts in the closure that have a bounded stand-in: run it (quick: reduced bound)
	standNames := map[string]bool{}
	standFor := []string{}
	for key, r := range results {
		if fs := w.Specs[key]; fs != nil && fs.Trusted && r != nil {
			for sub, val := range standInOf {
				if strings.Contains(shortKey(key), sub) {
					for _, one := range strings.Split(val, "|") {
						standNames[one] = true
					}
					standFor = append(standFor, shortKey(key))
				}
			}
		}
		for sub, ps := range standInPartial {
			if !strings.Contains(shortKey(key), sub) {
				continue
			}
			for _, p := range ps.Props {
				if p == prop {
					standNames[ps.Validator] = true
					standFor = append(standFor, shortKey(key)+" ("+ps.What+")")
				}
			}
		}
	}
	// aspects of a property that no contract in reach expresses, covered by a bounded check of the real functions
	for _, ps := range standInOfProperty[prop] {
		standNames[ps.Validator] = true
		standFor = append(standFor, ps.What)
	}
	sort.Strings(standFor)
	var standRows []map[string]interface{}
	var standFails []string
	if len(standNames) > 0 {
		var ns []string
		for n := range standNames {
			ns = append(ns, n)
		}
		rows, fails, err := runStandIns(repo, root, ns, tier != "thorough")
		if err != nil {
			return fault(err.Error())
		}
		standRows, standFails = rows, fails
	}
	genS := time.Since(t0).Seconds() - loadS
	if len(obls) == 0 && len(genErrs) == 0 {
		return fault("no obligations generated for " + prop + " (vacuity guard)")
	}
	for _, o := range obls {
		if w.Known[o.Name] != nil || otherKnown[o.Name] != nil {
			o.ShortTimeout = true
		}
	}
	dischargeAll(obls, timeout, 10, allSolvers)
	dischargeAll(vac, 3*time.Second, 10, []string{"z3", "cvc5"})
	thorough := map[string]interface{}{}
	if tier == "thorough" {
		// (1) clause covers
		dischargeAll(covers, 5*time.Second, 12, []string{"z3new", "cvc5"})
		reach := map[string]bool{}
		seen := map[string]string{}
		for _, c := range covers {
			seen[c.Name] = c.Text
			if c.Result != "unsat" && c.Result != "trivial" {
				reach[c.Name] = true
			}
		}
		vacuous := []string{}
		for n, t := range seen {
			if !reach[n] {
				vacuous = append(vacuous, n+": "+t)
			}
		}
		sort.Strings(vacuous)
		thorough["clause_covers_checked"] = len(seen)
		thorough["clause_covers_reachable"] = len(reach)
		thorough["clauses_with_unreachable_antecedent"] = vacuous
		thorough["clause_cover_note"] = "an `A ==> B` clause whose antecedent is refuted on every return path of its behaviour proves nothing there; listed for review, not counted as discharged-with-content (in a named behaviour this is often intended: e.g. err != nil clauses in a behaviour whose requires makes errors impossible)"
		// (2) stability census
		rows := censusAll(obls, 10*time.Second, 12, allSolvers)
		by := map[int]int{}
		fragile := []string{}
		for _, r := range rows {
			by[len(r.Proved)]++
			if len(r.Proved) <= 1 || r.SlowMS > 5000 {
				fragile = append(fragile, fmt.Sprintf("%s proved_by=%v fastest_ms=%d", r.Name, r.Proved, r.SlowMS))
			}
		}
		sort.Strings(fragile)
		if len(fragile) > 60 {
			fragile = append(fragile[:60], fmt.Sprintf("... and %d more", len(fragile)-60))
		}
		thorough["census_instances"] = len(rows)
		thorough["census_proved_by_n_solvers"] = map[string]int{"3": by[3], "2": by[2], "1": by[1], "0_within_10s_alone": by[0]}
		thorough["census_fragile"] = fragile
		// (3) the Lean audit of the T0 axioms that are stated as theorems over List (Fin 256)
		lt0 := time.Now()
		cmd := exec.Command("lean", filepath.Join(root, "specs", "lean", "T0.lean"))
		out, err := cmd.CombinedOutput()
		if err != nil {
			return fault("Lean audit of T0 failed: " + strings.TrimSpace(string(out)))
		}
		thorough["lean_audit"] = fmt.Sprintf("specs/lean/T0.lean accepted by lean (%.0fs)", time.Since(lt0).Seconds())
		// (4) bounded validators of the assumed models this property's obligations relied on
		bc, err := runValidators(repo, root, prop, assumed)
		if err != nil {
			return fault(err.Error())
		}
		if bc == nil {
			bc = []map[string]interface{}{}
		}
		thorough["bounded_checks_of_assumptions"] = bc
	}
	groups := groupObls(obls)
	// vacuity guards
	vacBad := []string{}
	pathOK := map[string]bool{}
	pathSeen := map[string]bool{}
	for _, v := range vac {
		key := v.Func + "#" + v.Behavior
		if v.Kind == "vacuity" && v.Result == "unsat" {
			vacBad = append(vacBad, v.Name+": precondition is contradictory")
		}
		if v.Kind == "vacuity-path" {
			pathSeen[key] = true
			if v.Result != "unsat" {
				pathOK[key] = true
			}
		}
	}
	for k := range pathSeen {
		if !pathOK[k] {
			vacBad = append(vacBad, shortKey(k)+": every explored return path is infeasible (vacuous contract)")
		}
	}
	if len(vacBad) > 0 {
		sort.Strings(vacBad)
		return fault("vacuity: " + strings.Join(vacBad, "; "))
	}
	// assemble results
	type failure struct {
		name, status, text, pos, fn, detail string
		known                               *KnownFinding
		obl                                 *Obligation
	}
	var fails []failure
	discharged, trivial := 0, 0
	wins := map[string]int{}
	var totalMS, maxMS int64
	maxName := ""
	for _, g := range groups {
		st := g.Status()
		if st == "unsat" {
			discharged++
			allTriv := true
			for _, o := range g.Instances {
				if o.Result != "trivial" {
					allTriv = false
					wins[o.Solver]++
					totalMS += o.TimeMS
					if o.TimeMS > maxMS {
						maxMS, maxName = o.TimeMS, g.Name
					}
				}
			}
			if allTriv {
				trivial++
			}
			continue
		}
		f := failure{name: g.Name, status: st, text: g.Text, pos: g.Pos, fn: g.Func}
		for _, o := range g.Instances {
			if o.Result != "unsat" && o.Result != "trivial" {
				f.detail = fmt.Sprintf("path %d: %s\n%s", o.Path, o.Result, o.Model)
				f.obl = o
				break
			}
		}
		f.known = w.Known[g.Name]
		fails = append(fails, f)
	}
	for _, e := range genErrs {
		fails = append(fails, failure{name: "generation: " + e, status: "not-generated", text: e})
	}
	if prop == "C12" {
		// the ownership model treats strings as immutable values and slices as regions with an owner; both are unsound in the
		// presence of unsafe conversions, so a package of the repository importing unsafe leaves C12 undecided
		for _, p := range w.Pkgs {
			if _, ok := p.Imports["unsafe"]; ok && strings.HasPrefix(p.PkgPath, modPath) {
				fails = append(fails, failure{name: "C12.scan[no-unsafe:" + shortKey(p.PkgPath) + "]", status: "not-generated",
					text: "package " + p.PkgPath + " imports unsafe: strings/slices may share memory in ways the ownership model (A-STR) does not cover"})
			}
		}
	}
	for i, l := range t1Lemmas {
		if lemRes[i].Result != "unsat" {
			fails = append(fails, failure{name: "theory.T1[" + l.Name + "]", status: lemRes[i].Result, text: l.Axiom()})
		} else {
			discharged++
			wins[lemRes[i].Solver]++
		}
	}
	nObl := len(groups) + len(t1Lemmas)
	// replay the recorded witnesses of known findings (must still manifest) and of repaired defects (must stay absent)
	ws := map[string]*Witness{}
	for _, k := range known.Findings {
		if hasProp(k.props(), prop) && k.Witness != nil {
			ws[k.ID] = k.Witness
		}
	}
	for _, k := range known.Fixed {
		if hasProp(k.props(), prop) && k.Witness != nil {
			ws[k.ID] = k.Witness
		}
	}
	wres := runWitnesses(repo, root, ws)
	violations := 0
	for _, k := range known.Fixed {
		if r := wres[k.ID]; r != nil && r.Status == "MANIFESTS" {
			violations++
			rp := filepath.Join(evidenceDir(root), "replay", prop+"-witness-"+k.ID+".json")
			writeJSON(rp, map[string]interface{}{"property": prop, "finding": k.ID, "what": k.What, "witness_test": r.File, "output": r.Line,
				"rerun": "/verif/check " + prop + " quick", "note": "a defect recorded as fixed manifests again on the real code (concrete input in the witness test)"})
			fmt.Printf("VIOLATION property=%s replay=%s finding=%s (recorded as fixed, manifests again: %s)\n", prop, rp, k.ID, r.Line)
		}
	}
	for i, fl := range standFails {
		violations++
		rp := filepath.Join(evidenceDir(root), "replay", fmt.Sprintf("%s-standin-%d.json", prop, i))
		writeJSON(rp, map[string]interface{}{"property": prop, "kind": "bounded stand-in for trusted contracts", "trusted_functions": standFor,
			"failing_input": fl, "validators": sortedKeys(standNames), "note": "found by running the real functions on the validator's inputs (validators/validators_test.go); the input is in failing_input",
			"rerun": "/verif/check " + prop + " " + tier})
		fmt.Printf("VIOLATION property=%s replay=%s bounded-stand-in failing input: %s\n", prop, rp, fl)
	}
	knownPrinted := map[string]bool{}
	var knownLines []string
	otherSkipped := []string{}
	for _, f := range fails {
		if f.known == nil && otherKnown[f.name] != nil {
			otherSkipped = append(otherSkipped, f.name+" ("+otherKnown[f.name].ID+")")
			continue
		}
		if f.known != nil {
			if !knownPrinted[f.known.ID] {
				knownPrinted[f.known.ID] = true
				line := fmt.Sprintf("KNOWN-FINDING: property=%s %s: %s [obligation %s; witness %s]", prop, f.known.ID, f.known.What, f.name, fmtWitness(wres[f.known.ID]))
				fmt.Println(line)
				knownLines = append(knownLines, line)
			}
			continue
		}
		violations++
		if f.obl != nil && f.obl.Replay != nil && (f.obl.Result == "sat" || f.obl.Replay.ExpectPanic) {
			// ground counterexample: replay it on the real code
			if confirmed, rec := replayModel(repo, root, f.obl); confirmed {
				rec["property"], rec["obligation"], rec["clause"], rec["at"] = prop, f.name, f.text, f.pos
				rec["rerun"] = "/verif/check " + prop + " quick"
				rp := filepath.Join(evidenceDir(root), "replay", prop+"-"+sanitize(f.name)+".json")
				writeJSON(rp, rec)
				fmt.Printf("VIOLATION property=%s replay=%s obligation=%q input: %v\n", prop, rp, f.name, rec["input"])
				continue
			} else if rec["note"] != nil {
				f.detail += "\nreplay: " + fmt.Sprint(rec["note"])
			}
		}
		rp := writeReplay(root, prop, f.name, f.status, f.text, f.pos, f.detail)
		fmt.Printf("VIOLATION property=%s replay=%s obligation=%q status=%s no-failing-input-found\n", prop, rp, f.name, f.status)
	}
	// a listed finding whose obligation now proves: note it (the entry suppresses nothing)
	for _, k := range known.Findings {
		if !hasProp(k.props(), prop) || knownPrinted[k.ID] {
			continue
		}
		found := false
		for _, g := range groups {
			for _, n := range k.names() {
				if g.Name == n {
					found = true
				}
			}
		}
		if found {
			fmt.Printf("note: known finding %s no longer fails (obligation discharged)\n", k.ID)
		}
	}
	// evidence
	var asm []string
	for a := range assumed {
		if t, ok := assumptionText[a]; ok {
			asm = append(asm, a+": "+t)
		} else {
			asm = append(asm, a)
		}
	}
	if prop == "C12" {
		// strings are values in the model; that is sound as long as no string shares mutable memory, i.e. the repository
		// makes no unsafe conversion. Scanned on every run and reported here (an import of unsafe is an unchecked
		// assumption, not a violation).
		var us []string
		for _, p := range w.Pkgs {
			if _, ok := p.Imports["unsafe"]; ok {
				us = append(us, p.PkgPath)
			}
		}
		if len(us) == 0 {
			asm = append(asm, "A-STR: strings are immutable values (scan of this tree: no package of the repository imports unsafe); strings.Builder.String and bytebufferpool String() are assumed to return strings that later writes cannot change")
		} else {
			asm = append(asm, "A-STR: strings are treated as immutable values although these packages import unsafe (NOT checked): "+strings.Join(us, ", "))
		}
	}
	sort.Strings(asm)
	samples := []interface{}{}
	for i, g := range groups {
		if i%(len(groups)/6+1) == 0 && len(samples) < 8 {
			size := 0
			for _, o := range g.Instances {
				if o.SMTSize > size {
					size = o.SMTSize
				}
			}
			samples = append(samples, map[string]interface{}{"obligation": g.Name, "clause": g.Text, "status": g.Status(), "paths": len(g.Instances), "smt_bytes": size, "at": g.Pos})
		}
	}
	level := "proof"
	nKnownObl := 0
	for _, f := range fails {
		if f.known != nil || otherKnown[f.name] != nil {
			nKnownObl++
		}
	}
	cov := map[string]interface{}{
		// obligations that have to be discharged on this tree: all generated ones except those a listed known finding
		// names (each of those is replaced by its residual obligation, which is counted here)
		"obligations":                            nObl - nKnownObl,
		"discharged":                             discharged,
		"obligations_generated":                  nObl,
		"obligations_excluded_by_known_findings": nKnownObl,
		"discharged_by_simplifier":               trivial,
		"failed":                                 len(fails),
		"known_findings":                         knownLines,
		"checker_cmd":                            fmt.Sprintf("/verif/check %s %s  (govc: go/ssa weakest-precondition style VC generation over /repo's working tree; z3 4.8.12, z3 5.1.0, cvc5 1.0 raced per obligation, timeout %v)", prop, tier, timeout),
		"trusted_base":                           asm,
		"functions_under_contract":               funcs,
		"bounded_stand_ins":                      standRows,
		"bounded_stand_ins_for":                  standFor,
		"bounded_stand_ins_note":                 "trusted (assumed) contracts of thin wrappers over external transformers, the functional part of the stream transformers, and laws of external functions that enter as lemma hypotheses are not proved; a bounded validator exercises the real functions instead (labelled bounded, never counted in obligations/discharged)",
		"dependency_closure":                     depFuncs,
		"dependency_closure_note":                "callee contracts the property's proofs assumed at call sites; each is verified in full (all clauses) in this run, transitively",
		"assumed_clauses_with_findings_of_other_properties": otherSkipped,
		"solver_wins":            wins,
		"solver_ms_total":        totalMS,
		"solver_ms_max":          maxMS,
		"slowest_obligation":     maxName,
		"theory_lemmas_reproved": len(t1Lemmas),
		"vacuity_checks":         len(vac),
		"samples":                samples,
		"witness_replays":        witnessSummary(wres),
		"load_s":                 loadS,
		"generate_s":             genS,
		"contract_files":         relFiles(w.Files, repo),
	}
	for k, v := range thorough {
		cov["thorough."+k] = v
	}
	if discharged != nObl-nKnownObl {
		// the proof did not go through: this run proves nothing; say so rather than claim the level
		level = "other"
		cov["explanation"] = fmt.Sprintf("%d of %d obligations were not discharged (%d of them belong to listed known findings); the property is not proved on this tree, see the VIOLATION lines", len(fails), nObl, nKnownObl)
	} else if nKnownObl > 0 {
		cov["explanation"] = fmt.Sprintf("proved except for %d obligation(s) excluded because genuine defects recorded in known_findings.json make them fail: %d finding(s) of this property (each printed as KNOWN-FINDING with its witness replayed on the real code) and %d obligation(s) of findings recorded against other properties that entered through the dependency closure; outside the carve-outs every obligation is discharged", nKnownObl, len(knownLines), len(otherSkipped))
	}
	if prop == "C09" && discharged == nObl-nKnownObl {
		// the property is about Build, whose body is outside the subset: only its building blocks are proved
		level = "other"
		cov["explanation"] = fmt.Sprintf("PARTIAL: the sequential building blocks of the batch encoder (priority tables, the two comparators, their lexicographic composition in Less, the per-candidate Run, Result) are proved for all inputs (%d obligations discharged); the composition in BatchDataCodingEncoder.Build (candidate map iteration, goroutines, lo.Filter, sort.Sort) is NOT proved - it is covered only by the bounded stand-in listed under bounded_stand_ins, which is a bounded check and not counted in obligations/discharged", discharged)
	}

	ev := &evidence{PropertyID: prop, Tier: tier, Seed: seed, Level: level, Coverage: cov, Assumptions: asm, WallS: time.Since(t0).Seconds(), Violations: violations}
	if err := writeJSON(evPath, ev); err != nil {
		fmt.Fprintln(os.Stderr, err)
		return 2
	}
	fmt.Printf("%s %s: %d obligations generated, %d excluded by listed known findings (%d of this property, printed above), %d to discharge, %d discharged, %d violations, %.1fs\n", prop, tier, nObl, nKnownObl, len(knownLines), nObl-nKnownObl, discharged, violations, time.Since(t0).Seconds())
	if violations > 0 {
		return 1
	}
	return 0
}

func relFiles(fs []string, repo string) []string {
	var out []string
	for _, f := range fs {
		out = append(out, strings.TrimPrefix(f, repo+"/"))
	}
	return out
}

func writeJSON(path string, v interface{}) error {
	b, err := json.MarshalIndent(v, "", " ")
	if err != nil {
		return err
	}
	os.MkdirAll(filepath.Dir(path), 0o755)
	return os.WriteFile(path, append(b, '\n'), 0o644)
}

func writeReplay(root, prop, name, status, text, pos, detail string) string {
	fn := filepath.Join(evidenceDir(root), "replay", prop+"-"+sanitize(name)+".json")
	writeJSON(fn, map[string]interface{}{
		"property":   prop,
		"obligation": name,
		"status":     status,
		"clause":     text,
		"at":         pos,
		"solver":     detail,
		"input":      nil,
		"note":       "no-failing-input-found: the obligation is not discharged on this tree; no concrete input was confirmed against the real code",
		"rerun":      "/verif/check " + prop + " quick",
	})
	return fn
}

func witnessSummary(w map[string]*witnessRun) []string {
	var out []string
	for _, id := range sortedKeys(w) {
		out = append(out, id+" "+w[id].Status)
	}
	return out
}

// evidenceDir: /verif/evidence, or a scratch directory when the self-test runs a check on a mutated copy
// (so that a must-fail run never overwrites the evidence of the real tree).
func evidenceDir(root string) string {
	if e := os.Getenv("VERIF_EVIDENCE_DIR"); e != "" {
		return e
	}
	return filepath.Join(root, "evidence")
}

func sortedKeys2[V any](m map[string]V) []string {
	var ks []string
	for k := range m {
		ks = append(ks, k)
	}
	sort.Strings(ks)
	return ks
}

// layoutDirectiveServes: the properties the clauses synthesised for a layout directive are tagged with.
func layoutDirectiveServes(dir, prop string) bool {
	d := strings.Fields(dir)
	if len(d) == 0 {
		return false
	}
	switch d[0] {
	case "enc":
		return prop == "C01" || prop == "C02" || prop == "C11" || prop == "C10" || prop == "C12" || prop == "C03"
	case "dec":
		return prop == "C01" || prop == "C02" || prop == "C11" || prop == "C03" || prop == "C12" || prop == "C10"
	case "cmd", "resp", "setseq", "getseq", "dispatch":
		return prop == "C10" || (d[0] == "dispatch" && prop == "C03")
	}
	return false
}
