package main

// Assumed models of package time and of the float64 duration accessors used by smpp.ToValidatePeriod (C19).
// A time.Time value is abstracted to its instant in nanoseconds (inst); Duration is an int64 count of nanoseconds.

import (
	"fmt"
	"strings"

	"golang.org/x/tools/go/ssa"
)

func (x *Exec) instOf(v Value) *Term {
	sv := v.(*StructVal)
	w, _ := sv.Fields[0].(*Term)
	e, _ := sv.Fields[1].(*Term)
	return App("tinst", SInt, w, e)
}

// zoneOff: the offset (in nanoseconds) of the location a time value carries; a nil location is UTC. One unknown constant
// per Location object (the offset's dependence on the instant - DST - is not modelled: the property's instants are DST-free).
func (x *Exec) zoneOff(v Value) *Term {
	sv := v.(*StructVal)
	if len(sv.Fields) < 3 {
		return IntLit(0)
	}
	p, ok := sv.Fields[2].(*PtrVal)
	if !ok || p.Obj == nil {
		return IntLit(0)
	}
	if p.Obj == x.utcLoc {
		return IntLit(0)
	}
	off := Const(fmt.Sprintf("tzoff.%d", p.Obj.ID), SInt)
	if p.Nil != nil {
		return Ite(p.Nil, IntLit(0), off)
	}
	return off
}

// civil: the facts tying the civil fields of the wall clock w to each other and to its "060102150405" rendering
// (YYMMDDhhmmss, two decimal digits each, the year modulo 100), once per wall-clock term and state.
func (x *Exec) civil(st *State, w *Term) {
	f := func(n string) *Term { return App(n, SInt, w) }
	rng := func(t *Term, lo, hi int64) *Term {
		constBounds[t] = boundsOf(lo, hi)
		return And(Le(IntLit(lo), t), Le(t, IntLit(hi)))
	}
	st.Assume(And(rng(f("tyear"), 0, 9999), rng(f("tmonth"), 1, 12), rng(f("tday"), 1, 31), rng(f("thour"), 0, 23), rng(f("tminute"), 0, 59), rng(f("tsecond"), 0, 59)))
	d2 := func(t *Term) *Term { return App("dec2", SBytes, t) }
	st.Assume(Eq(App("tfmt12", SBytes, w), CatN(d2(Mod(f("tyear"), IntLit(100))), d2(f("tmonth")), d2(f("tday")), d2(f("thour")), d2(f("tminute")), d2(f("tsecond")))))
}

func (x *Exec) withLoc(r Value, loc Value) Value {
	sv := r.(*StructVal)
	n := &StructVal{Typ: sv.Typ, Fields: append([]Value(nil), sv.Fields...)}
	if len(n.Fields) >= 3 {
		n.Fields[2] = loc
	}
	return n
}

func init() {
	assumptionText["A-FLOAT"] = "int(d.Hours()), int(d.Hours()/24), int(d.Minutes()), int(d.Seconds()) equal the integer quotients of the nanosecond count for 0 <= d < 4096h (float64 rounding changes the result only above; measured in DESIGN.md section 4 C19); beyond that range nothing is claimed"
	assumptionText["A-TIMEPKG"] = "time.ParseDuration is a partial function of its argument (parsedur / parseok); Time.Add/Before act on the abstract instant and keep the location, UTC() keeps the instant and sets the location to UTC, Format prints the wall clock of the location (instant + an unknown per-location offset, 0 for UTC; DST not modelled); Format(\"060102150405\") yields 12 characters (tfmt12): two decimal digits each of year mod 100, month, day, hour, minute, second, which are what Year/Month/Day/Hour/Minute/Second/Date/Clock return"
	assumptionText["A-FMT2"] = "fmt.Sprintf(\"0000%02d%02d%02d%02d000R\", a, b, c, e) is \"0000\" dec2(a) dec2(b) dec2(c) dec2(e) \"000R\" with two-character dec2 for 0..99"
	reg("time.ParseDuration", func(x *Exec, st *State, fr *Frame, in ssa.Instruction, callee *ssa.Function, args []Value) []Value {
		x.assume("A-TIMEPKG")
		v := args[0].(*Term)
		d := App("parsedur", SInt, v)
		ok := App("parseok", SBool, v)
		st.Assume(And(Le(IntLit(-9223372036854775808), d), Le(d, IntLit(9223372036854775807))))
		r := Fresh("dur", SInt)
		st.Assume(Eq(r, Ite(ok, d, IntLit(0))))
		return []Value{r, x.condErr(st, "parseduration", ok, TFalse)}
	})
	reg("time.(Time).Add", func(x *Exec, st *State, fr *Frame, in ssa.Instruction, callee *ssa.Function, args []Value) []Value {
		x.assume("A-TIMEPKG")
		r := x.freshValue(st, callee.Signature.Results().At(0).Type(), "tadd", false)
		r = x.withLoc(r, args[0].(*StructVal).Fields[2]) // Add keeps the location
		st.Assume(Eq(x.instOf(r), Add(x.instOf(args[0]), x.toInt(args[1].(*Term)))))
		return one(r)
	})
	reg("time.(Time).UTC", func(x *Exec, st *State, fr *Frame, in ssa.Instruction, callee *ssa.Function, args []Value) []Value {
		x.assume("A-TIMEPKG")
		r := x.freshValue(st, callee.Signature.Results().At(0).Type(), "tutc", false)
		if x.utcLoc == nil {
			x.utcLoc = newObj(ObjCell, nil, "time.UTC", false)
		}
		r = x.withLoc(r, &PtrVal{Obj: x.utcLoc, Nil: TFalse}) // same instant, location UTC
		st.Assume(Eq(x.instOf(r), x.instOf(args[0])))
		return one(r)
	})
	reg("time.(Time).Before", func(x *Exec, st *State, fr *Frame, in ssa.Instruction, callee *ssa.Function, args []Value) []Value {
		x.assume("A-TIMEPKG")
		return one(Lt(x.instOf(args[0]), x.instOf(args[1])))
	})
	// civil fields of a time value: functions of its wall clock (instant + zone offset), tied to the 12-digit rendering
	fields := []struct {
		name   string
		lo, hi int64
	}{{"Year", 0, 9999}, {"Month", 1, 12}, {"Day", 1, 31}, {"Hour", 0, 23}, {"Minute", 0, 59}, {"Second", 0, 59}}
	field := func(x *Exec, st *State, tv Value, k int) *Term {
		w := Add(x.instOf(tv), x.zoneOff(tv))
		x.civil(st, w)
		return App("t"+strings.ToLower(fields[k].name), SInt, w)
	}
	for k, f := range fields {
		k := k
		reg("time.(Time)."+f.name, func(x *Exec, st *State, fr *Frame, in ssa.Instruction, callee *ssa.Function, args []Value) []Value {
			x.assume("A-TIMEPKG")
			return one(field(x, st, args[0], k))
		})
	}
	reg("time.(Time).Date", func(x *Exec, st *State, fr *Frame, in ssa.Instruction, callee *ssa.Function, args []Value) []Value {
		x.assume("A-TIMEPKG")
		return []Value{field(x, st, args[0], 0), field(x, st, args[0], 1), field(x, st, args[0], 2)}
	})
	reg("time.(Time).Clock", func(x *Exec, st *State, fr *Frame, in ssa.Instruction, callee *ssa.Function, args []Value) []Value {
		x.assume("A-TIMEPKG")
		return []Value{field(x, st, args[0], 3), field(x, st, args[0], 4), field(x, st, args[0], 5)}
	})
	old := intrinsics["time.(Time).Format"]
	reg("time.(Time).Format", func(x *Exec, st *State, fr *Frame, in ssa.Instruction, callee *ssa.Function, args []Value) []Value {
		if layout := args[1].(*Term); layout == x.strLit(st, "060102150405") {
			x.assume("A-TIMEPKG")
			// the wall clock printed is that of the value's location: instant + zone offset
			w := Add(x.instOf(args[0]), x.zoneOff(args[0]))
			r := App("tfmt12", SBytes, w)
			st.Assume(Eq(App("len", SInt, r), IntLit(12)))
			x.civil(st, w)
			return one(r)
		}
		return old(x, st, fr, in, callee, args)
	})
	for name, unit := range map[string]int64{"Hours": 3600e9, "Minutes": 60e9, "Seconds": 1e9} {
		unit := unit
		reg("time.(Duration)."+name, func(x *Exec, st *State, fr *Frame, in ssa.Instruction, callee *ssa.Function, args []Value) []Value {
			x.assume("A-FLOAT")
			return one(App("float.durdiv", SInt, x.toInt(args[0].(*Term)), IntLit(unit)))
		})
	}
	_ = strings.Contains
}
