package main

import "fmt"

// cmdWitness: run every recorded witness (developer command).
func cmdWitness(repo, root string) int {
	known, err := loadKnown(root)
	if err != nil {
		fmt.Println(err)
		return 2
	}
	ws := map[string]*Witness{}
	for _, k := range known.Findings {
		if k.Witness != nil {
			ws[k.ID] = k.Witness
		}
	}
	for _, k := range known.Fixed {
		if k.Witness != nil {
			ws[k.ID] = k.Witness
		}
	}
	res := runWitnesses(repo, root, ws)
	for _, id := range sortedKeys(res) {
		fmt.Printf("%-6s %s\n", id, fmtWitness(res[id]))
	}
	return 0
}
