package main

// Loading /repo (current working tree) with go/packages, building SSA, collecting //@ contract files.

import (
	"fmt"
	"go/ast"
	"go/token"
	"go/types"
	"math/big"
	"os"
	"path/filepath"
	"sort"
	"strings"

	"golang.org/x/tools/go/packages"
	"golang.org/x/tools/go/ssa"
	"golang.org/x/tools/go/ssa/ssautil"
)

const modPath = "github.com/hujm2023/go-sms-protocol"

type World struct {
	Repo        string
	Root        string // /verif
	Pkgs        []*packages.Package
	Prog        *ssa.Program
	Fset        *token.FileSet
	SSAPkg      map[string]*ssa.Package
	Specs       map[string]*FuncSpec // key -> spec
	Pures       map[string]*PureDef  // "pkg.name" and "name" (unique)
	Lemmas      []*LemmaSpec
	Layouts     map[string]*LayoutType // "pkgpath.Type"
	SpecErr     []string
	Files       []string // contract files
	loops       map[*ssa.Function]*loopInfo
	Known       map[string]*KnownFinding
	Uninterp    map[string]*UninterpDef
	OnlyProp    string
	tags        map[string]int
	recLocals   map[string][]localDecl
	recLoopVars map[string]map[string][]string // function -> loop ordinal -> names of the loop-carried variables when recorded
	renameCache map[*ssa.Function]map[string]string
	Covers      bool // generate clause-cover queries (thorough tier)
	debug       map[*ssa.Function]map[string][]*ssa.DebugRef
}

func LoadWorld(repo, root string) (*World, error) {
	w := &World{Repo: repo, Root: root, SSAPkg: map[string]*ssa.Package{}, Specs: map[string]*FuncSpec{}, Pures: map[string]*PureDef{},
		Layouts: map[string]*LayoutType{}, Uninterp: map[string]*UninterpDef{}, loops: map[*ssa.Function]*loopInfo{}, debug: map[*ssa.Function]map[string][]*ssa.DebugRef{}}
	cfg := &packages.Config{Mode: packages.LoadAllSyntax, Dir: repo, BuildFlags: []string{"-tags=verif"}, Tests: false,
		Env: append(os.Environ(), "GOFLAGS=-mod=mod", "GOPROXY=off", "GOSUMDB=off", "GOTOOLCHAIN=local")}
	w.loadRecordedLocals(root)
	pkgs, err := packages.Load(cfg, "./...")
	if err != nil {
		return nil, err
	}
	var errs []string
	for _, p := range pkgs {
		for _, e := range p.Errors {
			errs = append(errs, e.Error())
		}
	}
	if len(errs) > 0 {
		return nil, fmt.Errorf("package load errors: %s", strings.Join(errs, "; "))
	}
	w.Pkgs = pkgs
	prog, spkgs := ssautil.AllPackages(pkgs, ssa.InstantiateGenerics|ssa.GlobalDebug)
	prog.Build()
	w.Prog = prog
	for i, p := range pkgs {
		if spkgs[i] != nil {
			w.SSAPkg[p.PkgPath] = spkgs[i]
		}
		w.Fset = p.Fset
	}
	// contract files: every file in a repo package whose name starts with verif_ ; //@ lines
	for _, p := range pkgs {
		if !strings.HasPrefix(p.PkgPath, modPath) {
			continue
		}
		for _, f := range p.Syntax {
			fn := p.Fset.Position(f.Pos()).Filename
			if !strings.HasPrefix(filepath.Base(fn), "verif_") {
				continue
			}
			w.Files = append(w.Files, fn)
			var lines []string
			var nos []int
			for _, cg := range f.Comments {
				for _, c := range cg.List {
					t := c.Text
					var body string
					switch {
					case strings.HasPrefix(t, "//@"):
						body = t[3:]
					case strings.HasPrefix(t, "// @"):
						body = t[4:]
					default:
						continue
					}
					lines = append(lines, body)
					nos = append(nos, p.Fset.Position(c.Pos()).Line)
				}
			}
			sf, err := ParseSpecLines(p.PkgPath, fn, lines, nos)
			if err != nil {
				return nil, err
			}
			for _, fs := range sf.Funcs {
				if old, dup := w.Specs[fs.Key]; dup {
					// several blocks for one function are merged (generated skeleton + hand-written part)
					old.Behaviors[0].Requires = append(old.Behaviors[0].Requires, fs.Behaviors[0].Requires...)
					old.Behaviors[0].Ensures = append(old.Behaviors[0].Ensures, fs.Behaviors[0].Ensures...)
					old.Behaviors = append(old.Behaviors, fs.Behaviors[1:]...)
					for k, v := range fs.Loops {
						if _, ok := old.Loops[k]; ok {
							return nil, fmt.Errorf("duplicate loop %d contract for %s", k, fs.Key)
						}
						old.Loops[k] = v
					}
					for k, v := range fs.Options {
						old.Options[k] = v
					}
					if fs.Mode != "" {
						old.Mode = fs.Mode
					}
					if fs.Theory != "" {
						old.Theory = fs.Theory
					}
					if fs.Layout != "" {
						old.Layout = fs.Layout
					}
					old.Props = append(old.Props, fs.Props...)
					old.Inline = old.Inline || fs.Inline
					old.Trusted = old.Trusted || fs.Trusted
					continue
				}
				w.Specs[fs.Key] = fs
			}
			for _, pd := range sf.Pures {
				w.Pures[pd.Pkg+"."+pd.Name] = pd
			}
			w.Lemmas = append(w.Lemmas, sf.Lemmas...)
			for _, u := range sf.Uninterp {
				w.Uninterp[u.Name] = u
			}
		}
	}
	sort.Strings(w.Files)
	if err := w.loadLayouts(); err != nil {
		return nil, err
	}
	for _, k := range sortedKeys(w.Specs) {
		if err := w.synthesise(w.Specs[k]); err != nil {
			return nil, err
		}
	}
	markNamingBase()
	return w, nil
}

// Naming base: constants and objects made while loading keep their numbers; every function (behaviour, lemma) is then
// generated with the counters restarted from here, so that the text of its queries does not depend on which other
// functions were generated before it in the same run (a solver's verdict must not change with an edit elsewhere).
var freshBase, objBase int
var constBoundsBase map[*Term][2]*big.Int

func markNamingBase() {
	freshBase, objBase = freshCtr, objCtr
	constBoundsBase = make(map[*Term][2]*big.Int, len(constBounds))
	for k, v := range constBounds {
		constBoundsBase[k] = v
	}
}

func restartNaming() {
	freshCtr, objCtr = freshBase, objBase
	constBounds = make(map[*Term][2]*big.Int, len(constBoundsBase))
	for k, v := range constBoundsBase {
		constBounds[k] = v
	}
	boundCache = map[*Term][2]*big.Int{}
}

// funcKey gives the contract key of an SSA function: "pkg.Name", "pkg.(*T).Name" or "pkg.(T).Name".
func funcKey(fn *ssa.Function) string {
	if fn == nil {
		return "<nil>"
	}
	if fn.Signature.Recv() != nil {
		rt := fn.Signature.Recv().Type()
		ptr := ""
		if p, ok := rt.(*types.Pointer); ok {
			rt = p.Elem()
			ptr = "*"
		}
		if n, ok := rt.(*types.Named); ok {
			pk := ""
			if n.Obj().Pkg() != nil {
				pk = n.Obj().Pkg().Path()
			}
			return pk + ".(" + ptr + n.Obj().Name() + ")." + fn.Name()
		}
		return "?." + fn.Name()
	}
	if fn.Pkg != nil {
		return fn.Pkg.Pkg.Path() + "." + fn.Name()
	}
	if fn.Parent() != nil {
		return funcKey(fn.Parent()) + "$" + fn.Name()
	}
	if o := fn.Object(); o != nil && o.Pkg() != nil {
		return o.Pkg().Path() + "." + fn.Name()
	}
	return fn.String()
}

func shortKey(k string) string {
	return strings.TrimPrefix(strings.TrimPrefix(k, modPath+"/"), modPath+".")
}

// LookupFunc finds the SSA function for a contract key.
func (w *World) LookupFunc(fs *FuncSpec) *ssa.Function {
	sp := w.SSAPkg[fs.Pkg]
	if sp == nil {
		return nil
	}
	if fs.Recv == "" {
		return sp.Func(fs.Name)
	}
	tn := strings.TrimPrefix(fs.Recv, "*")
	m := sp.Members[tn]
	t, ok := m.(*ssa.Type)
	if !ok {
		return nil
	}
	var recv types.Type = t.Type()
	if strings.HasPrefix(fs.Recv, "*") {
		recv = types.NewPointer(recv)
	}
	sel := w.Prog.MethodSets.MethodSet(recv).Lookup(sp.Pkg, fs.Name)
	if sel == nil {
		return nil
	}
	fn := w.Prog.MethodValue(sel)
	if fn != nil && fn.Synthetic != "" {
		// promoted / wrapper method: the contract must name the declared receiver form
		return nil
	}
	return fn
}

func (w *World) isRepoFunc(fn *ssa.Function) bool {
	if fn == nil {
		return false
	}
	p := fn.Pkg
	if p == nil && fn.Parent() != nil {
		p = fn.Parent().Pkg
	}
	if p == nil {
		if o := fn.Origin(); o != nil {
			p = o.Pkg
		}
	}
	return p != nil && strings.HasPrefix(p.Pkg.Path(), modPath)
}

func (w *World) pos(p token.Pos) string {
	if !p.IsValid() {
		return ""
	}
	ps := w.Fset.Position(p)
	return fmt.Sprintf("%s:%d", strings.TrimPrefix(ps.Filename, w.Repo+"/"), ps.Line)
}

// ---- loops

type loopInfo struct {
	Headers []*ssa.BasicBlock                            // in block order: ordinal = index+1
	Body    map[*ssa.BasicBlock]map[*ssa.BasicBlock]bool // header -> blocks in loop
	Ord     map[*ssa.BasicBlock]int
}

func (w *World) Loops(fn *ssa.Function) *loopInfo {
	if li, ok := w.loops[fn]; ok {
		return li
	}
	li := &loopInfo{Body: map[*ssa.BasicBlock]map[*ssa.BasicBlock]bool{}, Ord: map[*ssa.BasicBlock]int{}}
	for _, b := range fn.Blocks {
		for _, s := range b.Succs {
			if s.Dominates(b) { // back edge b -> s
				body := li.Body[s]
				if body == nil {
					body = map[*ssa.BasicBlock]bool{s: true}
					li.Body[s] = body
					li.Headers = append(li.Headers, s)
				}
				// natural loop: all blocks that reach b without passing s
				var stack []*ssa.BasicBlock
				if !body[b] {
					body[b] = true
					stack = append(stack, b)
				}
				for len(stack) > 0 {
					n := stack[len(stack)-1]
					stack = stack[:len(stack)-1]
					for _, p := range n.Preds {
						if !body[p] {
							body[p] = true
							stack = append(stack, p)
						}
					}
				}
			}
		}
	}
	sort.Slice(li.Headers, func(i, j int) bool { return li.Headers[i].Index < li.Headers[j].Index })
	for i, h := range li.Headers {
		li.Ord[h] = i + 1
	}
	w.loops[fn] = li
	return li
}

// DebugNames maps source variable names to the DebugRef instructions of a function.
func (w *World) DebugNames(fn *ssa.Function) map[string][]*ssa.DebugRef {
	if m, ok := w.debug[fn]; ok {
		return m
	}
	m := map[string][]*ssa.DebugRef{}
	for _, b := range fn.Blocks {
		for _, in := range b.Instrs {
			if d, ok := in.(*ssa.DebugRef); ok {
				if id, ok := d.Expr.(*ast.Ident); ok {
					m[id.Name] = append(m[id.Name], d)
				}
			}
		}
	}
	w.debug[fn] = m
	return m
}
