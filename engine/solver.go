package main

// SMT-LIB generation and solver racing (z3 4.8.12, z3-new 5.1.0, cvc5 1.0).

import (
	"bytes"
	"context"
	"crypto/md5"
	"fmt"
	"os"
	"os/exec"
	"path/filepath"
	"regexp"
	"strings"
	"sync"
	"sync/atomic"
	"time"
)

type Theory struct {
	Name     string
	Text     string          // declarations + axioms (solver independent)
	Declared map[string]bool // symbols declared/defined by Text
}

type Lemma struct {
	Name  string
	Vars  string
	Hyp   string
	Concl string
	Pats  []string
	Hints []string
}

func (l Lemma) Axiom() string {
	body := "(=> " + l.Hyp + " " + l.Concl + ")"
	if l.Vars == "" {
		return body
	}
	var ps string
	for _, p := range l.Pats {
		ps += " :pattern (" + p + ")"
	}
	return "(forall (" + l.Vars + ") (! " + body + ps + "))"
}

var lemVarRe = regexp.MustCompile(`\((\w+) (\w+)\)`)

// ProofQuery: the lemma as an obligation against T0 + observer definitions.
func (l Lemma) ProofQuery() string {
	var sb strings.Builder
	for _, m := range lemVarRe.FindAllStringSubmatch(l.Vars, -1) {
		fmt.Fprintf(&sb, "(declare-const %s %s)\n", m[1], m[2])
	}
	fmt.Fprintf(&sb, "(assert %s)\n", l.Hyp)
	for _, h := range l.Hints {
		fmt.Fprintf(&sb, "(assert %s)\n", h)
	}
	fmt.Fprintf(&sb, "(assert (not %s))\n(check-sat)\n", l.Concl)
	return sb.String()
}

var (
	theories  = map[string]*Theory{}
	t1Lemmas  []Lemma
	declRe    = regexp.MustCompile(`\((?:declare-fun|define-fun|declare-const|declare-sort|define-fun-rec)\s+([^\s()]+)`)
	scratch   string
	solverBin = map[string]string{"z3": "/usr/bin/z3", "z3new": "z3-new", "cvc5": "cvc5"}
)

func stripOptions(s string) string {
	var out []string
	for _, l := range strings.Split(s, "\n") {
		if strings.HasPrefix(strings.TrimSpace(l), "(set-option") || strings.HasPrefix(strings.TrimSpace(l), "(set-logic") {
			continue
		}
		out = append(out, l)
	}
	return strings.Join(out, "\n")
}

func loadTheories(root string) error {
	rd := func(n string) (string, error) {
		b, err := os.ReadFile(filepath.Join(root, "specs", "theory", n))
		return stripOptions(string(b)), err
	}
	t0, err := rd("T0.smt2")
	if err != nil {
		return err
	}
	obs, err := rd("obs_defs.smt2")
	if err != nil {
		return err
	}
	t1c, err := rd("T1_core.smt2")
	if err != nil {
		return err
	}
	lem, err := os.ReadFile(filepath.Join(root, "specs", "theory", "T1_lemmas.txt"))
	if err != nil {
		return err
	}
	var t1 strings.Builder
	t1.WriteString(t1c)
	for _, l := range strings.Split(string(lem), "\n") {
		l = strings.TrimSpace(l)
		if l == "" || strings.HasPrefix(l, "#") {
			continue
		}
		parts := strings.Split(l, "|")
		if len(parts) != 6 {
			return fmt.Errorf("bad lemma line %q", l)
		}
		for i := range parts {
			parts[i] = strings.TrimSpace(parts[i])
		}
		lm := Lemma{Name: parts[0], Vars: parts[1], Hyp: parts[2], Concl: parts[3]}
		for _, p := range strings.Split(parts[4], ";") {
			if p = strings.TrimSpace(p); p != "" {
				lm.Pats = append(lm.Pats, p)
			}
		}
		for _, p := range strings.Split(parts[5], ";") {
			if p = strings.TrimSpace(p); p != "" {
				lm.Hints = append(lm.Hints, p)
			}
		}
		t1Lemmas = append(t1Lemmas, lm)
		fmt.Fprintf(&t1, "\n(assert %s)", lm.Axiom())
	}
	mkT := func(name, text string) {
		t := &Theory{Name: name, Text: text, Declared: map[string]bool{}}
		for _, m := range declRe.FindAllStringSubmatch(text, -1) {
			t.Declared[m[1]] = true
		}
		theories[name] = t
	}
	mkT("T0", t0+"\n"+obs)
	mkT("T1", t1.String())
	mkT("none", "(declare-sort Bytes 0)\n")
	return nil
}

// extra axioms for generator-introduced functions, added only when the symbol occurs
var onDemandAxioms = map[string]string{
	"ofArr": `(assert (forall ((A (Array Int Int)) (o Int) (n Int)) (! (=> (>= n 0) (= (len (ofArr A o n)) n)) :pattern ((ofArr A o n)))))
(assert (forall ((A (Array Int Int)) (o Int) (n Int) (i Int)) (! (=> (and (<= 0 i) (< i n)) (= (at (ofArr A o n) i) (select A (+ o i)))) :pattern ((at (ofArr A o n) i)))))`,
}

// relaxed: the theory's declarations without its axioms, and only the quantifier-free facts. Such a query is a
// candidate generator only: a model of it need not be a real counterexample, so it is used solely for safety
// obligations, where running the real code on the candidate input decides (it panics or it does not).
func buildQueryRelaxed(o *Obligation) string {
	r := *o
	r.Facts = nil
	for _, f := range o.Facts {
		if fs := f.String(); !strings.Contains(fs, "forall") && !strings.Contains(fs, "exists") {
			r.Facts = append(r.Facts, f)
		}
	}
	r.relaxed = true
	return buildQuery(&r, nil)
}

func declsOnly(text string) string {
	var sb strings.Builder
	var clean strings.Builder
	for _, l := range strings.Split(text, "\n") {
		if i := strings.Index(l, ";"); i >= 0 {
			l = l[:i]
		}
		clean.WriteString(l + "\n")
	}
	for _, e := range parseSexprs(clean.String()) {
		if len(e.kids) > 0 && (e.kids[0].atom == "assert" || e.kids[0].atom == "check-sat") {
			continue
		}
		sb.WriteString(e.String())
		sb.WriteString("\n")
	}
	return sb.String()
}

func buildQuery(o *Obligation, extra []string) string {
	th := theories[o.Theory]
	if th == nil {
		th = theories["T0"]
	}
	var sb strings.Builder
	if o.relaxed {
		sb.WriteString(declsOnly(th.Text))
	} else {
		sb.WriteString(th.Text)
	}
	sb.WriteString("\n")
	consts := map[string]*Sort{}
	funs := map[string]sig{}
	all := append([]*Term{o.Goal}, o.Facts...)
	unfolded := unfoldRec(all)
	collectSyms(append(append([]*Term(nil), all...), unfolded...), consts, funs)
	for _, n := range sortedKeys(funs) {
		if th.Declared[n] {
			continue
		}
		f := funs[n]
		var as []string
		for _, a := range f.Args {
			as = append(as, a.String())
		}
		fmt.Fprintf(&sb, "(declare-fun %s (%s) %s)\n", smtSym(n), strings.Join(as, " "), f.Ret)
		if ax, ok := onDemandAxioms[n]; ok && o.Theory != "none" && !o.relaxed {
			sb.WriteString(ax + "\n")
		}
	}
	for _, n := range sortedKeys(consts) {
		if th.Declared[n] {
			continue
		}
		fmt.Fprintf(&sb, "(declare-const %s %s)\n", smtSym(n), consts[n])
	}
	for _, e := range extra {
		sb.WriteString(e + "\n")
	}
	for _, f := range unfolded {
		if o.relaxed {
			break
		}
		sb.WriteString("(assert ")
		f.write(&sb)
		sb.WriteString(")\n")
	}
	for _, f := range o.Facts {
		sb.WriteString("(assert ")
		f.write(&sb)
		sb.WriteString(")\n")
	}
	sb.WriteString("(assert (not ")
	o.Goal.write(&sb)
	sb.WriteString("))\n(check-sat)\n")
	return sb.String()
}

type solveResult struct {
	Result string // unsat sat unknown timeout error
	Solver string
	MS     int64
	Model  string
	Detail map[string]string
}

func solverHeader(s string, ground bool) string {
	switch s {
	case "z3", "z3new", "z3@7", "z3new@7":
		if ground {
			return ""
		}
		return "(set-option :auto_config false)\n(set-option :smt.mbqi false)\n"
	case "cvc5":
		return "(set-option :produce-models true)\n(set-logic ALL)\n"
	}
	return ""
}

func runSolver(ctx context.Context, s, query string, timeout time.Duration, wantModel bool) (string, string, int64) {
	ground := !strings.Contains(query, "forall")
	q := solverHeader(s, ground) + query
	if wantModel {
		q += "(get-model)\n"
	}
	f, err := os.CreateTemp(scratch, "q-*.smt2")
	if err != nil {
		return "error", err.Error(), 0
	}
	f.WriteString(q)
	f.Close()
	defer os.Remove(f.Name())
	var args []string
	switch s {
	case "z3", "z3new", "z3@7", "z3new@7":
		args = []string{fmt.Sprintf("-T:%d", int(timeout.Seconds())+1)}
		if strings.HasSuffix(s, "@7") {
			// second attempt under another random seed: the E-matching search of a quantified goal is seed-sensitive
			args = append(args, "smt.random_seed=7", "sat.random_seed=7")
		}
		args = append(args, f.Name())
	case "cvc5":
		args = []string{"--incremental", fmt.Sprintf("--tlimit=%d", timeout.Milliseconds()), f.Name()}
	}
	cctx, cancel := context.WithTimeout(ctx, timeout+2*time.Second)
	defer cancel()
	cmd := exec.CommandContext(cctx, solverBin[strings.TrimSuffix(s, "@7")], args...)
	var out bytes.Buffer
	cmd.Stdout = &out
	cmd.Stderr = &out
	t0 := time.Now()
	_ = cmd.Run()
	ms := time.Since(t0).Milliseconds()
	text := out.String()
	first := strings.TrimSpace(strings.SplitN(text, "\n", 2)[0])
	switch first {
	case "unsat", "sat", "unknown":
		rest := ""
		if i := strings.Index(text, "\n"); i >= 0 {
			rest = text[i+1:]
		}
		return first, rest, ms
	case "timeout":
		return "timeout", "", ms
	}
	if cctx.Err() != nil {
		return "timeout", "", ms
	}
	if strings.Contains(text, "timeout") || strings.Contains(text, "interrupted") {
		return "timeout", "", ms
	}
	return "error", strings.TrimSpace(text), ms
}

// Second attempts are for the odd obligation that a loaded machine or an unlucky seed left undecided on a tree where
// everything else is proved. A tree on which many obligations fail is not helped by them and must not be slowed down:
// a run gets a budget (long: after a timeout, twice the time; short: after a quick `unknown`, 10 s).
var retryLong, retryShort int32

func retryAllowed(afterTimeout bool) bool {
	if afterTimeout {
		return atomic.AddInt32(&retryLong, 1) <= 6
	}
	return atomic.AddInt32(&retryShort, 1) <= 40
}

// discharge races the solvers on one obligation.
func discharge(o *Obligation, timeout time.Duration, solvers []string, extra []string) {
	if o.Result == "trivial" {
		return
	}
	q := o.query
	if q == "" {
		q = buildQuery(o, extra)
	}
	o.query = ""
	o.SMTSize = len(q)
	if len(q) > 2_000_000 {
		o.Result = "error"
		o.Model = "query larger than the size cap"
		return
	}
	ctx, cancel := context.WithCancel(context.Background())
	defer cancel()
	type res struct {
		s, r, rest string
		ms         int64
	}
	ch := make(chan res, len(solvers))
	ground := !strings.Contains(q, "forall")
	for _, s := range solvers {
		go func(s string) {
			r, rest, ms := runSolver(ctx, s, q, timeout, ground)
			ch <- res{s, r, rest, ms}
		}(s)
	}
	detail := []string{}
	final := res{r: "unknown"}
	got := 0
	for got < len(solvers) {
		r := <-ch
		got++
		detail = append(detail, fmt.Sprintf("%s=%s(%dms)", r.s, r.r, r.ms))
		if r.r == "unsat" {
			final = r
			cancel()
			break
		}
		if r.r == "sat" && ground {
			final = r
			cancel()
			break
		}
		if final.r == "unknown" && (r.r == "timeout" || r.r == "sat" || r.r == "error") {
			if r.r != "error" || final.s == "" {
				final = r
			}
		}
	}
	if final.r != "unsat" && !(final.r == "sat" && ground) && !o.ShortTimeout && len(solvers) > 1 && !strings.HasPrefix(o.Kind, "vacuity") && o.Kind != "cover" && retryAllowed(strings.Contains(strings.Join(detail, " "), "=timeout(")) {
		// nothing decided it: one more attempt with the two z3 versions under a different random seed (an `unsat` is a proof
		// whatever the seed; a goal that is really violated stays undecided)
		// a timeout (rather than a quick `unknown`) may be the machine's load and not the goal: give the second attempt
		// twice the time; quick `unknown`s get a short one
		t2 := 10 * time.Second
		if strings.Contains(strings.Join(detail, " "), "=timeout(") {
			t2 = 2 * timeout
		}
		if t2 > 120*time.Second {
			t2 = 120 * time.Second
		}
		ctx2, cancel2 := context.WithCancel(context.Background())
		ch2 := make(chan res, 2)
		for _, s := range []string{"z3new@7", "z3@7"} {
			go func(s string) {
				r, rest, ms := runSolver(ctx2, s, q, t2, ground)
				ch2 <- res{s, r, rest, ms}
			}(s)
		}
		for i := 0; i < 2; i++ {
			r := <-ch2
			detail = append(detail, fmt.Sprintf("%s=%s(%dms)", r.s, r.r, r.ms))
			if r.r == "unsat" {
				final = r
				break
			}
		}
		cancel2()
	}
	o.Result = final.r
	if final.r == "sat" && !ground {
		o.Result = "unknown" // a "sat" under incomplete quantifier instantiation is not a counterexample
	}
	o.Solver = final.s
	o.TimeMS = final.ms
	if o.Result != "unsat" {
		o.Model = strings.Join(detail, " ") + "\n" + final.rest
	}
}

func dischargeAll(obls []*Obligation, timeout time.Duration, workers int, solvers []string) {
	var wg sync.WaitGroup
	ch := make(chan *Obligation)
	for i := 0; i < workers; i++ {
		wg.Add(1)
		go func() {
			defer wg.Done()
			for o := range ch {
				t := timeout
				if o.ShortTimeout && t > 3*time.Second {
					t = 3 * time.Second // obligations a listed known finding says fail: no need to wait for the full timeout
				}
				discharge(o, t, solvers, nil)
			}
		}()
	}
	for _, o := range obls {
		if o.Result == "" {
			// term construction is not thread-safe: build the query text here, solve in the workers
			o.query = buildQuery(o, nil)
			if f := os.Getenv("VERIF_QUERY_LOG"); f != "" {
				// determinism audit: one line per query (name, digest of its text)
				if fh, err := os.OpenFile(f, os.O_APPEND|os.O_CREATE|os.O_WRONLY, 0o644); err == nil {
					fmt.Fprintf(fh, "%s %x\n", o.Name, md5.Sum([]byte(o.query)))
					fh.Close()
				}
			}
			ch <- o
		}
	}
	close(ch)
	wg.Wait()
}

func ctxBG() context.Context { return context.Background() }

// raceQuery runs all solvers on a raw query; first unsat wins.
func raceQuery(q string, timeout time.Duration, solvers []string) solveResult {
	ctx, cancel := context.WithCancel(context.Background())
	defer cancel()
	type res struct {
		s, r string
		ms   int64
	}
	ch := make(chan res, len(solvers))
	for _, s := range solvers {
		go func(s string) {
			r, _, ms := runSolver(ctx, s, q, timeout, false)
			ch <- res{s, r, ms}
		}(s)
	}
	out := solveResult{Result: "unknown"}
	for range solvers {
		r := <-ch
		if r.r == "unsat" {
			return solveResult{Result: "unsat", Solver: r.s, MS: r.ms}
		}
		if out.Result == "unknown" {
			out = solveResult{Result: r.r, Solver: r.s, MS: r.ms}
		}
	}
	if out.Result == "sat" {
		out.Result = "unknown"
	}
	return out
}

func proveLemmas(th *Theory, timeout time.Duration) []solveResult {
	out := make([]solveResult, len(t1Lemmas))
	var wg sync.WaitGroup
	sem := make(chan struct{}, 6)
	for i, l := range t1Lemmas {
		wg.Add(1)
		go func(i int, l Lemma) {
			defer wg.Done()
			sem <- struct{}{}
			defer func() { <-sem }()
			out[i] = raceQuery(th.Text+"\n"+l.ProofQuery(), timeout, allSolvers)
		}(i, l)
	}
	wg.Wait()
	return out
}

// unfoldRec: fuel-1 unfolding of the recursive spec function rep(D, w, lo, hi) at every occurrence
// (empty, cons and snoc forms and the length), supplied by the generator instead of self-triggering axioms.
func unfoldRec(ts []*Term) []*Term {
	seen := map[*Term]bool{}
	var reps, tsers []*Term
	drops := map[*Term][]*Term{}
	var dropKeys []*Term // in order of first occurrence: the query text must not depend on map iteration order
	var walk func(t *Term)
	walk = func(t *Term) {
		if seen[t] {
			return
		}
		seen[t] = true
		if t.Op == "app" && t.Name == "rep" {
			reps = append(reps, t)
		}
		if t.Op == "app" && t.Name == "tser" {
			tsers = append(tsers, t)
		}
		if t.Op == "app" && t.Name == "drop" && !hasBound(t) {
			if _, ok := drops[t.Args[0]]; !ok {
				dropKeys = append(dropKeys, t.Args[0])
			}
			drops[t.Args[0]] = append(drops[t.Args[0]], t)
		}
		for _, a := range t.Args {
			walk(a)
		}
		for _, p := range t.Pat {
			walk(p)
		}
	}
	for _, t := range ts {
		walk(t)
	}
	var out []*Term
	for _, r := range reps {
		bound := false
		for _, a := range r.Args {
			if hasBound(a) {
				bound = true
			}
		}
		if bound {
			continue
		}
		D, w, lo, hi := r.Args[0], r.Args[1], r.Args[2], r.Args[3]
		rr := App("rep", SBytes, D, w, lo, hi) // raw application (same term)
		out = append(out, Implies(Ge(lo, hi), Eq(rr, TEps)))
		first := Fixed(Select(D, lo), w)
		last := Fixed(Select(D, Sub(hi, IntLit(1))), w)
		out = append(out, Implies(Lt(lo, hi), Eq(rr, Cat(first, App("rep", SBytes, D, w, Add(lo, IntLit(1)), hi)))))
		out = append(out, Implies(Lt(lo, hi), Eq(rr, App("cat", SBytes, App("rep", SBytes, D, w, lo, Sub(hi, IntLit(1))), last))))
		out = append(out, Eq(App("len", SInt, rr), Mul(w, Max(Sub(hi, lo), IntLit(0)))))
	}
	// drop composes: for two suffixes of the same sequence, the later one is a suffix of the earlier one
	// (instances of T0's drop_drop axiom, supplied here because E-matching cannot see through the index arithmetic)
	for _, dk := range dropKeys {
		ds := drops[dk]
		if len(ds) < 2 || len(ds) > 8 {
			continue
		}
		for _, d1 := range ds {
			for _, d2 := range ds {
				if d1 == d2 {
					continue
				}
				a, c := d1.Args[1], d2.Args[1]
				out = append(out, Implies(And(Le(IntLit(0), a), Le(a, c)), Eq(d2, App("drop", SBytes, d1, Sub(c, a)))))
			}
		}
	}
	// tser(T, L, V, ord, lo, hi): serialisation of the map entries ord[lo..hi) as tag/length/value triplets
	tvals := map[*Term]bool{}
	var tvalKeys []*Term
	for _, r := range tsers {
		bound := false
		for _, a := range r.Args {
			if hasBound(a) {
				bound = true
			}
		}
		if bound {
			continue
		}
		T, L, V, ord, lo, hi := r.Args[0], r.Args[1], r.Args[2], r.Args[3], r.Args[4], r.Args[5]
		mkS := func(lo, hi *Term) *Term { return App("tser", SBytes, T, L, V, ord, lo, hi) }
		trip := func(i *Term) *Term {
			k := Select(ord, i)
			tv := App("tval", SBytes, V, L, k)
			if !tvals[tv] {
				tvalKeys = append(tvalKeys, tv)
			}
			tvals[tv] = true
			return CatN(BE(16, Select(T, k)), BE(16, Select(L, k)), tv)
		}
		rr := mkS(lo, hi)
		out = append(out, Implies(Ge(lo, hi), Eq(rr, TEps)))
		consForm := Cat(trip(lo), mkS(Add(lo, IntLit(1)), hi))
		out = append(out, Implies(Lt(lo, hi), Eq(rr, consForm)))
		// reading the 4-octet triplet header spans two be16 segments: instances of the take/drop-beyond-first-segment rule (proved in Lean)
		{
			k := Select(ord, lo)
			tv := App("tval", SBytes, V, L, k)
			hdr := Cat(BE(16, Select(T, k)), BE(16, Select(L, k)))
			out = append(out, Eq(App("take", SBytes, consForm, IntLit(4)), hdr))
			out = append(out, Eq(App("drop", SBytes, consForm, IntLit(4)), Cat(tv, mkS(Add(lo, IntLit(1)), hi))))
		}
		out = append(out, Implies(Lt(lo, hi), Eq(rr, App("cat", SBytes, mkS(lo, Sub(hi, IntLit(1))), trip(Sub(hi, IntLit(1)))))))
		// every triplet has at least four octets (by induction on hi-lo; part of the definition's theory)
		out = append(out, Ge(App("len", SInt, rr), Mul(IntLit(4), Max(Sub(hi, lo), IntLit(0)))))
	}
	for _, tv := range tvalKeys {
		V, L, k := tv.Args[0], tv.Args[1], tv.Args[2]
		l := Select(L, k)
		vk := Select(V, k)
		out = append(out, Implies(Eq(l, Len(vk)), Eq(tv, vk)))
		out = append(out, Implies(Lt(l, Len(vk)), Eq(tv, Take(vk, l))))
		out = append(out, Implies(Gt(l, Len(vk)), Eq(tv, Cat(vk, Zeros(Sub(l, Len(vk)))))))
		out = append(out, Implies(Ge(l, IntLit(0)), Eq(App("len", SInt, tv), l)))
	}
	return out
}

func hasBound(t *Term) bool {
	if t.Op == "const" && strings.Contains(t.Name, "!q") {
		return true
	}
	for _, a := range t.Args {
		if hasBound(a) {
			return true
		}
	}
	return false
}

// census (thorough tier): every discharged obligation is re-run on each solver separately, without racing, to see how
// many back ends prove it; an obligation only one back end proves, or that needs seconds, is a candidate for instability.
type censusRow struct {
	Name    string
	Proved  []string
	SlowMS  int64
	Results map[string]string
}

func censusAll(obls []*Obligation, timeout time.Duration, workers int, solvers []string) []censusRow {
	type job struct {
		o *Obligation
		q string
	}
	var mu sync.Mutex
	var rows []censusRow
	var wg sync.WaitGroup
	ch := make(chan job)
	for i := 0; i < workers; i++ {
		wg.Add(1)
		go func() {
			defer wg.Done()
			for j := range ch {
				row := censusRow{Name: j.o.Name, Results: map[string]string{}}
				ground := !strings.Contains(j.q, "forall")
				for _, s := range solvers {
					r, _, ms := runSolver(ctxBG(), s, j.q, timeout, ground)
					row.Results[s] = r
					if r == "unsat" {
						row.Proved = append(row.Proved, s)
						if row.SlowMS == 0 || ms < row.SlowMS {
							row.SlowMS = ms // fastest proof
						}
					}
				}
				mu.Lock()
				rows = append(rows, row)
				mu.Unlock()
			}
		}()
	}
	for _, o := range obls {
		if o.Result != "unsat" {
			continue
		}
		ch <- job{o, buildQuery(o, nil)}
	}
	close(ch)
	wg.Wait()
	return rows
}
