package main

// Rename tolerance. Contracts live in a separate comment file, so renaming a parameter or a local that a contract
// mentions would leave the contract pointing at a name that no longer exists although nothing about the behaviour
// changed. specs/locals.json records, for every function under contract, the ordered list of its declared variables
// (receiver, parameters, named results, locals in source order) with their types, taken from the tree the contracts
// were written against (`govc locals`). When a function's current list has the same length and the same types
// position by position but different names, the old names are rebound to the new ones positionally. Anything else
// (added/removed/retyped variables) leaves name-based resolution as it is.

import (
	"encoding/json"
	"go/ast"
	"go/types"
	"os"
	"path/filepath"
	"sort"

	"golang.org/x/tools/go/ssa"
)

type localDecl struct {
	Name string `json:"n"`
	Type string `json:"t"`
}

func (w *World) declsOf(fn *ssa.Function) []localDecl {
	syn, ok := fn.Syntax().(*ast.FuncDecl)
	if !ok || fn.Pkg == nil {
		return nil
	}
	var info *types.Info
	for _, p := range w.Pkgs {
		if p.Types == fn.Pkg.Pkg {
			info = p.TypesInfo
		}
	}
	if info == nil {
		return nil
	}
	type dv struct {
		pos int
		d   localDecl
	}
	var ds []dv
	seen := map[*types.Var]bool{}
	qual := func(p *types.Package) string { return p.Name() }
	ast.Inspect(syn, func(n ast.Node) bool {
		id, ok := n.(*ast.Ident)
		if !ok {
			return true
		}
		v, ok := info.Defs[id].(*types.Var)
		if !ok || v == nil || v.IsField() || seen[v] || id.Name == "_" {
			return true
		}
		seen[v] = true
		ds = append(ds, dv{int(id.Pos()), localDecl{id.Name, types.TypeString(v.Type(), qual)}})
		return true
	})
	sort.Slice(ds, func(i, j int) bool { return ds[i].pos < ds[j].pos })
	out := make([]localDecl, len(ds))
	for i, d := range ds {
		out[i] = d.d
	}
	return out
}

func (w *World) loadRecordedLocals(root string) {
	w.recLocals = map[string][]localDecl{}
	b, err := os.ReadFile(filepath.Join(root, "specs", "locals.json"))
	if err != nil {
		return
	}
	_ = json.Unmarshal(b, &w.recLocals)
}

// renames: old name -> current name for fn, when the declared-variable list differs from the recorded one by names only.
func (w *World) renames(fn *ssa.Function) map[string]string {
	if m, ok := w.renameCache[fn]; ok {
		return m
	}
	if w.renameCache == nil {
		w.renameCache = map[*ssa.Function]map[string]string{}
	}
	var m map[string]string
	rec := w.recLocals[funcKey(fn)]
	cur := w.declsOf(fn)
	if len(rec) > 0 && len(rec) == len(cur) {
		same := true
		diff := false
		for i := range rec {
			if rec[i].Type != cur[i].Type {
				same = false
				break
			}
			if rec[i].Name != cur[i].Name {
				diff = true
			}
		}
		if same && diff {
			m = map[string]string{}
			for i := range rec {
				if rec[i].Name != cur[i].Name {
					if _, dup := m[rec[i].Name]; !dup {
						m[rec[i].Name] = cur[i].Name
					}
				}
			}
		}
	}
	w.renameCache[fn] = m
	return m
}

// cmdLocals writes specs/locals.json from the current tree (developer command; run when contracts are (re)written).
func cmdLocals(repo, root string) int {
	w, err := LoadWorld(repo, root)
	if err != nil {
		println(err.Error())
		return 2
	}
	out := map[string][]localDecl{}
	for k, fs := range w.Specs {
		fn := w.LookupFunc(fs)
		if fn == nil {
			continue
		}
		if d := w.declsOf(fn); len(d) > 0 {
			out[k] = d
		}
	}
	b, _ := json.MarshalIndent(out, "", " ")
	if err := os.WriteFile(filepath.Join(root, "specs", "locals.json"), b, 0o644); err != nil {
		println(err.Error())
		return 2
	}
	println("recorded declared variables of", len(out), "functions")
	return 0
}

// aliasOld makes renamed parameters / named results reachable under the names the contract was written with.
func (w *World) aliasOld(fn *ssa.Function, vars map[string]Value) {
	for old, nn := range w.renames(fn) {
		if v, ok := vars[nn]; ok {
			if _, exists := vars[old]; !exists {
				vars[old] = v
			}
		}
	}
}
