package main

// Rename tolerance. Contracts live in a separate comment file, so renaming a parameter or a local that a contract
// mentions would leave the contract pointing at a name that no longer exists although nothing about the behaviour
// changed. specs/locals.json records, for every function under contract, the ordered list of its declared variables
// (receiver, parameters, named results, locals in source order) with their types, taken from the tree the contracts
// were written against (`govc locals`). When a function's current list has the same length and the same types
// position by position but different names, the old names are rebound to the new ones positionally. When the lists
// differ in more than names, a vanished name is rebound to a new one only if the pairing is forced (one of each, per type).

import (
	"encoding/json"
	"fmt"
	"go/ast"
	"go/types"
	"os"
	"path/filepath"
	"sort"

	"golang.org/x/tools/go/ssa"
)

type localDecl struct {
	Name string `json:"n"`
	Type string `json:"t"`
}

func (w *World) declsOf(fn *ssa.Function) []localDecl {
	syn, ok := fn.Syntax().(*ast.FuncDecl)
	if !ok || fn.Pkg == nil {
		return nil
	}
	var info *types.Info
	for _, p := range w.Pkgs {
		if p.Types == fn.Pkg.Pkg {
			info = p.TypesInfo
		}
	}
	if info == nil {
		return nil
	}
	type dv struct {
		pos int
		d   localDecl
	}
	var ds []dv
	seen := map[*types.Var]bool{}
	qual := func(p *types.Package) string { return p.Name() }
	ast.Inspect(syn, func(n ast.Node) bool {
		id, ok := n.(*ast.Ident)
		if !ok {
			return true
		}
		v, ok := info.Defs[id].(*types.Var)
		if !ok || v == nil || v.IsField() || seen[v] || id.Name == "_" {
			return true
		}
		seen[v] = true
		ds = append(ds, dv{int(id.Pos()), localDecl{id.Name, types.TypeString(v.Type(), qual)}})
		return true
	})
	sort.Slice(ds, func(i, j int) bool { return ds[i].pos < ds[j].pos })
	out := make([]localDecl, len(ds))
	for i, d := range ds {
		out[i] = d.d
	}
	return out
}

func (w *World) loadRecordedLocals(root string) {
	w.recLocals = map[string][]localDecl{}
	b, err := os.ReadFile(filepath.Join(root, "specs", "locals.json"))
	if err != nil {
		return
	}
	_ = json.Unmarshal(b, &w.recLocals)
	w.recLoopVars = map[string]map[string][]string{}
	if b, err := os.ReadFile(filepath.Join(root, "specs", "loopvars.json")); err == nil {
		_ = json.Unmarshal(b, &w.recLoopVars)
	}
}

// loopVarsOf: for every loop of fn (by ordinal) the names of its loop-carried variables (phis of the header).
func (w *World) loopVarsOf(fn *ssa.Function) map[string][]string {
	out := map[string][]string{}
	li := w.Loops(fn)
	for h, ord := range li.Ord {
		var names []string
		for _, in := range h.Instrs {
			p, ok := in.(*ssa.Phi)
			if !ok {
				break
			}
			if p.Comment != "" {
				names = append(names, p.Comment)
			}
		}
		sort.Strings(names)
		out[fmt.Sprint(ord)] = names
	}
	return out
}

// wasCounterOf: name was a loop-carried variable of loop ord of fn when the contracts were recorded.
func (w *World) wasLoopVar(fn *ssa.Function, ord int, name string) bool {
	for _, n := range w.recLoopVars[funcKey(fn)][fmt.Sprint(ord)] {
		if n == name {
			return true
		}
	}
	return false
}

// renames: old name -> current name for fn, when the declared-variable list differs from the recorded one by names only.
func (w *World) renames(fn *ssa.Function) map[string]string {
	if m, ok := w.renameCache[fn]; ok {
		return m
	}
	if w.renameCache == nil {
		w.renameCache = map[*ssa.Function]map[string]string{}
	}
	var m map[string]string
	rec := w.recLocals[funcKey(fn)]
	cur := w.declsOf(fn)
	if len(rec) > 0 && len(rec) == len(cur) {
		same := true
		diff := false
		for i := range rec {
			if rec[i].Type != cur[i].Type {
				same = false
				break
			}
			if rec[i].Name != cur[i].Name {
				diff = true
			}
		}
		if same && diff {
			m = map[string]string{}
			for i := range rec {
				if rec[i].Name != cur[i].Name {
					if _, dup := m[rec[i].Name]; !dup {
						m[rec[i].Name] = cur[i].Name
					}
				}
			}
		}
	}
	if m == nil && len(rec) > 0 && len(cur) > 0 && len(rec)*len(cur) <= 250000 {
		// the lists differ in length (temporaries added or removed): align the two declaration sequences, keeping their
		// order, so that as many variables as possible keep name and type (3 points) or at least their type (1 point);
		// an old name aligned with a different new name of the same type is rebound to it. As below, a wrong pairing
		// cannot prove anything false.
		n, k := len(rec), len(cur)
		score := make([][]int, n+1)
		for i := range score {
			score[i] = make([]int, k+1)
		}
		pair := func(i, j int) int {
			if rec[i].Type != cur[j].Type {
				return -1
			}
			if rec[i].Name == cur[j].Name {
				return 3
			}
			return 1
		}
		for i := n - 1; i >= 0; i-- {
			for j := k - 1; j >= 0; j-- {
				best := score[i+1][j]
				if score[i][j+1] > best {
					best = score[i][j+1]
				}
				if p := pair(i, j); p > 0 && score[i+1][j+1]+p > best {
					best = score[i+1][j+1] + p
				}
				score[i][j] = best
			}
		}
		curNames := map[string]bool{}
		for _, d := range cur {
			curNames[d.Name] = true
		}
		for i, j := 0, 0; i < n && j < k; {
			p := pair(i, j)
			switch {
			case p > 0 && score[i][j] == score[i+1][j+1]+p:
				if p == 1 && !curNames[rec[i].Name] {
					if m == nil {
						m = map[string]string{}
					}
					if _, dup := m[rec[i].Name]; !dup {
						m[rec[i].Name] = cur[j].Name
					}
				}
				i, j = i+1, j+1
			case score[i][j] == score[i+1][j]:
				i++
			default:
				j++
			}
		}
	}
	if m == nil && len(rec) > 0 && len(cur) > 0 {
		// the lists differ by more than names (a temporary added or removed, statements restructured): names that vanished
		// and names that appeared are paired when the pairing is forced - for a type, exactly one vanished and exactly one
		// new name. A wrong pairing cannot prove anything false: locals occur only in loop invariants, and an invariant
		// that is established and preserved is true whatever variable it speaks about.
		count := func(ds []localDecl) map[localDecl]int {
			c := map[localDecl]int{}
			for _, d := range ds {
				c[d]++
			}
			return c
		}
		rc, cc := count(rec), count(cur)
		gone, came := map[string][]string{}, map[string][]string{} // by type
		for _, d := range rec {
			if cc[d] == 0 && rc[d] > 0 {
				gone[d.Type] = append(gone[d.Type], d.Name)
				rc[d] = 0
			}
		}
		for _, d := range cur {
			if count(rec)[d] == 0 && cc[d] > 0 {
				came[d.Type] = append(came[d.Type], d.Name)
				cc[d] = 0
			}
		}
		for t, g := range gone {
			if c := came[t]; len(g) == 1 && len(c) == 1 {
				if m == nil {
					m = map[string]string{}
				}
				m[g[0]] = c[0]
			}
		}
	}
	w.renameCache[fn] = m
	return m
}

// cmdLocals writes specs/locals.json from the current tree (developer command; run when contracts are (re)written).
func cmdLocals(repo, root string) int {
	w, err := LoadWorld(repo, root)
	if err != nil {
		println(err.Error())
		return 2
	}
	out := map[string][]localDecl{}
	for k, fs := range w.Specs {
		fn := w.LookupFunc(fs)
		if fn == nil {
			continue
		}
		if d := w.declsOf(fn); len(d) > 0 {
			out[k] = d
		}
	}
	b, _ := json.MarshalIndent(out, "", " ")
	if err := os.WriteFile(filepath.Join(root, "specs", "locals.json"), b, 0o644); err != nil {
		println(err.Error())
		return 2
	}
	lv := map[string]map[string][]string{}
	for k, fs := range w.Specs {
		if fn := w.LookupFunc(fs); fn != nil && len(fn.Blocks) > 0 {
			if m := w.loopVarsOf(fn); len(m) > 0 {
				lv[k] = m
			}
		}
	}
	b2, _ := json.MarshalIndent(lv, "", " ")
	if err := os.WriteFile(filepath.Join(root, "specs", "loopvars.json"), b2, 0o644); err != nil {
		println(err.Error())
		return 2
	}
	println("recorded declared variables of", len(out), "functions, loop-carried variables of", len(lv))
	return 0
}

// aliasOld makes renamed parameters / named results reachable under the names the contract was written with.
func (w *World) aliasOld(fn *ssa.Function, vars map[string]Value) {
	for old, nn := range w.renames(fn) {
		if v, ok := vars[nn]; ok {
			if _, exists := vars[old]; !exists {
				vars[old] = v
			}
		}
	}
}

// vanishedInt: name was an int-typed declared variable of fn when the contracts were recorded and is not one now.
func (w *World) vanishedInt(fn *ssa.Function, name string) bool {
	was := false
	for _, d := range w.recLocals[funcKey(fn)] {
		if d.Name == name && d.Type == "int" {
			was = true
		}
	}
	if !was {
		return false
	}
	for _, d := range w.declsOf(fn) {
		if d.Name == name {
			return false
		}
	}
	return true
}

// recordedInt: name was an int-typed declared variable of fn when the contracts were recorded.
func (w *World) recordedInt(fn *ssa.Function, name string) bool {
	for _, d := range w.recLocals[funcKey(fn)] {
		if d.Name == name && d.Type == "int" {
			return true
		}
	}
	return false
}
