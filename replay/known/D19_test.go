package smgp

import "testing"

// D19: TP_udhi indexes the first octet of a value that may be empty.
func TestVerifWitness_D19(t *testing.T) {
	defer func() {
		if r := recover(); r != nil {
			t.Logf("WITNESS D19 MANIFESTS: TP_udhi panics on an empty value: %v", r)
		}
	}()
	o := Options{TAG_TP_udhi: NewOption(TAG_TP_udhi, nil)}
	_ = o.TP_udhi()
	t.Log("WITNESS D19 ABSENT")
}
