package smgp30

import (
	"testing"

	"github.com/hujm2023/go-sms-protocol/smgp"
)

// D28 (known finding): SMGP 3.0.3 5.2.2.5.2 says Active_Test_Resp has no body; the code writes and requires a 13th octet.
func TestVerifWitness_D28(t *testing.T) {
	p := &ActiveTestResp{Header: smgp.Header{CommandID: smgp.CommandActiveTestResp, SequenceID: 7}}
	data, err := p.IEncode()
	if err != nil {
		t.Fatalf("encode: %v", err)
	}
	conformant := []byte{0, 0, 0, 12, 0x80, 0, 0, 4, 0, 0, 0, 7}
	q := new(ActiveTestResp)
	derr := q.IDecode(conformant)
	if len(data) != 12 || derr != nil {
		t.Logf("WITNESS D28 MANIFESTS: encodes %d octets (document: 12); decoding the 12-octet image: %v", len(data), derr)
		return
	}
	t.Log("WITNESS D28 ABSENT")
}
