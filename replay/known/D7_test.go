package smgp30

import "testing"

// D7: the backup key spelling is searched without its colon and the value offset assumes the colon is there:
// a receipt text that merely contains "Sub" panics, and "Submit_Date:.. Sub:001" reads the wrong field.
func TestVerifWitness_D7(t *testing.T) {
	panicked := false
	func() {
		defer func() {
			if recover() != nil {
				panicked = true
			}
		}()
		_, _ = ExtractDeliveryReceipt("Sub")
	}()
	d, _ := ExtractDeliveryReceipt("id:0123456789 Submit_Date:2401011200 Sub:001")
	if panicked || d.Sub != "001" {
		t.Logf("WITNESS D7 MANIFESTS: ExtractDeliveryReceipt(\"Sub\") panicked=%v; Sub of \"... Submit_Date:2401011200 Sub:001\" = %q (want \"001\")", panicked, d.Sub)
		return
	}
	t.Log("WITNESS D7 ABSENT")
}
