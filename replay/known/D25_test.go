package smgp

import "testing"

// D25: Options.Len adds len(value) while Serialize emits `length` octets: they disagree for values over 65535 octets.
func TestVerifWitness_D25(t *testing.T) {
	o := Options{TAG_MsgSrc: NewOption(TAG_MsgSrc, make([]byte, 65537))}
	if o.Len() != len(o.Serialize()) {
		t.Logf("WITNESS D25 MANIFESTS: Len() = %d, len(Serialize()) = %d", o.Len(), len(o.Serialize()))
		return
	}
	t.Log("WITNESS D25 ABSENT")
}
