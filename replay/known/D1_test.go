package cmpp20

import "testing"

// D1: CMPP 2.0 query response: MO counters are never written/read (MT counters twice).
func TestVerifWitness_D1(t *testing.T) {
	p := &PduQueryResp{MtScs: 1, MtWT: 2, MtFL: 3, MoScs: 4, MoWT: 5, MoFL: 6}
	data, err := p.IEncode()
	if err != nil {
		t.Fatalf("encode: %v", err)
	}
	q := new(PduQueryResp)
	if err := q.IDecode(data); err != nil {
		t.Fatalf("decode: %v", err)
	}
	if q.MoScs != 4 || q.MoWT != 5 || q.MoFL != 6 || q.MtScs != 1 {
		t.Logf("WITNESS D1 MANIFESTS: decoded Mt=(%d,%d,%d) Mo=(%d,%d,%d), want Mt=(1,2,3) Mo=(4,5,6)", q.MtScs, q.MtWT, q.MtFL, q.MoScs, q.MoWT, q.MoFL)
		return
	}
	t.Log("WITNESS D1 ABSENT")
}
