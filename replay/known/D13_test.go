package protocol

import "testing"

// D13: the 16-bit reference of the 06 08 04 header form was computed as c[3]|c[4].
func TestVerifWitness_D13(t *testing.T) {
	key, total, idx, rest, ok := ParseLongSmsContent("\x06\x08\x04\x93\x18\x06\x06")
	if !ok || key != 0x9318 || total != 6 || idx != 6 || rest != "" {
		t.Logf("WITNESS D13 MANIFESTS: reference %#x (want 0x9318), total %d, index %d, valid %v", key, total, idx, ok)
		return
	}
	t.Log("WITNESS D13 ABSENT")
}
