package smgp30

import (
	"bytes"
	"testing"

	"github.com/hujm2023/go-sms-protocol/smgp"
)

// D22: optional-parameter values of a decoded SMGP submit are sub-slices of the input buffer; reusing the
// buffer after decoding changes the decoded PDU.
func TestVerifWitness_D22(t *testing.T) {
	s := &Submit{
		Header:          smgp.Header{CommandID: smgp.CommandSubmit, SequenceID: 7},
		DestTermIDCount: 1,
		DestTermID:      []string{"13800000000"},
		MsgContent:      "hi",
		MsgLength:       2,
		Options:         smgp.Options{},
	}
	s.Options.Add(smgp.NewOption(smgp.TAG_TP_pid, []byte{0x41, 0x42, 0x43}))
	buf, err := s.IEncode()
	if err != nil {
		t.Fatalf("encode: %v", err)
	}
	var d Submit
	if err := d.IDecode(buf); err != nil {
		t.Fatalf("decode: %v", err)
	}
	before := append([]byte(nil), d.Options[smgp.TAG_TP_pid].Value()...)
	for i := range buf {
		buf[i] = 0xEE
	}
	after := d.Options[smgp.TAG_TP_pid].Value()
	if !bytes.Equal(before, after) {
		t.Logf("WITNESS D22 MANIFESTS: option value %x became %x after the input buffer was overwritten", before, after)
		return
	}
	t.Log("WITNESS D22 ABSENT")
}
