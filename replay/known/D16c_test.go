package smpp34

import (
	"errors"
	"testing"

	sms "github.com/hujm2023/go-sms-protocol"
	"github.com/hujm2023/go-sms-protocol/smpp"
)

// D16: the SMPP dispatcher has no case for unbind_resp, which the package can encode.
func TestVerifWitness_D16c(t *testing.T) {
	p := &UnBindResp{Header: smpp.Header{ID: smpp.UNBIND_RESP, Sequence: 3}}
	data, err := p.IEncode()
	if err != nil {
		t.Fatalf("encode: %v", err)
	}
	if _, err = DecodeSMPP34(data); errors.Is(err, sms.ErrUnsupportedPacket) {
		t.Logf("WITNESS D16c MANIFESTS: DecodeSMPP34 answers ErrUnsupportedPacket for an encoded unbind_resp")
		return
	}
	t.Log("WITNESS D16c ABSENT")
}
