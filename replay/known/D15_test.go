package smpp34

import (
	"testing"

	"github.com/hujm2023/go-sms-protocol/smpp"
)

// D15: a bind_receiver / bind_transmitter request reports and answers as bind_transceiver.
func TestVerifWitness_D15(t *testing.T) {
	b := &Bind{Header: smpp.Header{ID: smpp.BIND_RECEIVER, Sequence: 9}, SystemID: "id", Password: "pw"}
	data, err := b.IEncode()
	if err != nil {
		t.Fatalf("encode: %v", err)
	}
	pdu, err := DecodeSMPP34(data)
	if err != nil {
		t.Fatalf("decode: %v", err)
	}
	cmd := pdu.GetCommand().ToUint32()
	resp := pdu.GenEmptyResponse().(*BindResp)
	if cmd != uint32(smpp.BIND_RECEIVER) || resp.Header.ID != smpp.BIND_RECEIVER_RESP {
		t.Logf("WITNESS D15 MANIFESTS: bind_receiver (id 1) reports command %#x and is answered with %#x", cmd, uint32(resp.Header.ID))
		return
	}
	t.Log("WITNESS D15 ABSENT")
}
