package sgip_test

import (
	"errors"
	"testing"

	sms "github.com/hujm2023/go-sms-protocol"
	"github.com/hujm2023/go-sms-protocol/sgip"
	"github.com/hujm2023/go-sms-protocol/sgip/sgip12"
)

// D16: the SGIP dispatcher has no case for the unbind response, which the package can encode.
func TestVerifWitness_D16b(t *testing.T) {
	p := &sgip12.UnbindResp{Header: sgip.Header{CommandID: sgip.SGIP_UNBIND_REP, Sequence: [3]uint32{1, 2, 3}}}
	data, err := p.IEncode()
	if err != nil {
		t.Fatalf("encode: %v", err)
	}
	if _, err = sgip12.DecodeSGIP12(data); errors.Is(err, sms.ErrUnsupportedPacket) {
		t.Logf("WITNESS D16b MANIFESTS: DecodeSGIP12 answers ErrUnsupportedPacket for an encoded unbind response")
		return
	}
	t.Log("WITNESS D16b ABSENT")
}
