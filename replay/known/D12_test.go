package protocol

import (
	"context"
	"strings"
	"testing"

	"github.com/hujm2023/go-sms-protocol/datacoding"
)

// D12: a message that needs more than 255 parts is split with wrapped total/sequence octets instead of being refused.
func TestVerifWitness_D12(t *testing.T) {
	content := strings.Repeat("a", 134*255+1) // 256 parts of ASCII
	parts, _, err := EncodeCMPPContentAndSplit(context.Background(), content, datacoding.CMPP_CODING_ASCII, 1)
	if err == nil {
		t.Logf("WITNESS D12 MANIFESTS: %d parts returned without error; total octet of part 1 = %d, sequence octet of part 256 = %d", len(parts), parts[0][4], parts[255][5])
		return
	}
	t.Log("WITNESS D12 ABSENT")
}
