package smgp30

import "testing"

// D3: SMGP login: AuthenticatorClient (16 octets, any value) is read through the NUL-trimming primitive.
func TestVerifWitness_D3c(t *testing.T) {
	auth := "\x01\x02\x00\x04\x05\x06\x07\x08\x09\x0a\x0b\x0c\x0d\x0e\x0f\x10"
	p := &Login{ClientID: "12345678", AuthenticatorClient: auth, LoginMode: 2, Version: 0x30, Timestamp: 1}
	data, err := p.IEncode()
	if err != nil {
		t.Fatalf("encode: %v", err)
	}
	q := new(Login)
	_ = q.IDecode(data)
	if q.AuthenticatorClient != auth {
		t.Logf("WITNESS D3c MANIFESTS: AuthenticatorClient with a NUL octet decodes to %d octets instead of 16", len(q.AuthenticatorClient))
		return
	}
	t.Log("WITNESS D3c ABSENT")
}
