package smgp30

import "testing"

// D2 (known finding): SMGP submit response / deliver: MsgID is written raw (10 octets) but decoded into 20 hex digits.
func TestVerifWitness_D2(t *testing.T) {
	id := "\x01\x02\x03\x04\x05\x06\x07\x08\x09\x10"
	p := &SubmitResp{MsgID: id, Status: 0}
	data, err := p.IEncode()
	if err != nil {
		t.Fatalf("encode: %v", err)
	}
	q := new(SubmitResp)
	_ = q.IDecode(data)
	if q.MsgID != id {
		t.Logf("WITNESS D2 MANIFESTS: MsgID of 10 octets decodes to %q (%d characters)", q.MsgID, len(q.MsgID))
		return
	}
	t.Log("WITNESS D2 ABSENT")
}
