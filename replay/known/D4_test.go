package cmpp20

import (
	"encoding/binary"
	"testing"
)

// D4: TotalLength computed as uint32(21*DestUsrTL) with the product taken in uint8: wraps at 13 destinations.
func TestVerifWitness_D4(t *testing.T) {
	dst := make([]string, 13)
	for i := range dst {
		dst[i] = "13800000000"
	}
	p := &PduSubmit{DestUsrTL: 13, DestTerminalID: dst}
	data, err := p.IEncode()
	if err != nil {
		t.Fatalf("encode: %v", err)
	}
	if got := binary.BigEndian.Uint32(data[:4]); int(got) != len(data) {
		t.Logf("WITNESS D4 MANIFESTS: length prefix %d, actual %d octets (13 destinations)", got, len(data))
		return
	}
	t.Log("WITNESS D4 ABSENT")
}
