package protocol

import (
	"context"
	"testing"

	"github.com/hujm2023/go-sms-protocol/datacoding"
)

// D26: an invalid requested coding number is encoded as UCS-2 but reported back unchanged.
func TestVerifWitness_D26(t *testing.T) {
	parts, got, err := EncodeCMPPContentAndSplit(context.Background(), "hello", datacoding.CMPPDataCoding(7), 1)
	parts2, got2, err2 := EncodeSMPPContentAndSplit(context.Background(), "hello", datacoding.SMPPDataCoding(7), 1)
	if (err == nil && got != datacoding.CMPP_CODING_UCS2) || (err2 == nil && got2 != datacoding.SMPP_CODING_UCS2) {
		t.Logf("WITNESS D26 MANIFESTS: requested coding 7: CMPP reports %d for %x, SMPP reports %d for %x (the bytes are UCS-2)", got, parts, got2, parts2)
		return
	}
	t.Log("WITNESS D26 ABSENT")
}
