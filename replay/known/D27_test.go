package smpp

import (
	"testing"
	"time"
)

// D27: the absolute validity period has a two-digit year; a period of a century or more is printed as a date that
// denotes a different instant (here: one day ahead instead of one hundred years and one day) instead of being refused.
func TestVerifWitness_D27(t *testing.T) {
	now := time.Date(2050, 1, 1, 0, 0, 0, 0, time.UTC)
	s, err := ToValidatePeriod(now, "876600h", false) // 36525 days
	if err != nil {
		t.Log("WITNESS D27 ABSENT")
		return
	}
	near, _ := ToValidatePeriod(now, "24h", false)
	if s == near {
		t.Logf("WITNESS D27 MANIFESTS: 876600h (100 years) from 2050-01-01 printed as %q, the same string as 24h", s)
		return
	}
	t.Logf("WITNESS D27 MANIFESTS: 876600h accepted and printed as %q although the year has only two digits", s)
}
