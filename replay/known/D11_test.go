package protocol

import (
	"bytes"
	"context"
	"strings"
	"testing"

	"github.com/hujm2023/go-sms-protocol/datacoding"
	"github.com/hujm2023/go-sms-protocol/datacoding/gsm7encoding"
)

// unpackN: reference unpacker that is told the septet count (as a handset is).
func unpackN(p []byte, n int) []byte {
	out := make([]byte, n)
	for j := 0; j < n; j++ {
		bit := 7 * j
		v := uint16(p[bit/8]) >> (bit % 8)
		if bit/8+1 < len(p) {
			v |= uint16(p[bit/8+1]) << (8 - bit%8)
		}
		out[j] = byte(v) & 0x7f
	}
	return out
}

// D11: the packed GSM 7-bit splitter fixes the part count before the escape shifting moves septets into later parts:
// 152 x 'a', '[' (ESC + code), 152 x 'b' needs three parts but only two are produced, losing the tail.
func TestVerifWitness_D11(t *testing.T) {
	content := strings.Repeat("a", 152) + "[" + strings.Repeat("b", 152)
	want, _ := gsm7encoding.Encode(content)
	parts, _, err := EncodeSMPPContentAndSplit(context.Background(), content, datacoding.SMPP_CODING_GSM7_PACKED, 1)
	if err != nil {
		t.Fatalf("encode: %v", err)
	}
	var got []byte
	remaining := len(want)
	for _, p := range parts {
		n := (len(p) - 6) * 8 / 7
		if n > remaining {
			n = remaining
		}
		if n > 153 {
			n = 153
		}
		// a part holds 153 septets, or 152 when the 153rd would be ESC
		got = append(got, unpackN(p[6:], n)...)
		remaining -= n
	}
	if !bytes.Equal(got, want) {
		t.Logf("WITNESS D11 MANIFESTS: %d parts carry %d of %d septets (total octets say %d)", len(parts), len(got), len(want), parts[0][4])
		return
	}
	t.Log("WITNESS D11 ABSENT")
}
