package smgp

import (
	"testing"
	"time"

	"github.com/hujm2023/go-sms-protocol/packet"
)

// D5: ReadOptions truncates its 4-octet scratch slice to length 0, so nothing is consumed and the loop never ends.
func TestVerifWitness_D5(t *testing.T) {
	done := make(chan Options, 1)
	go func() {
		r := packet.NewPacketReader([]byte{0x00, 0x01, 0x00, 0x01, 0x07})
		done <- ReadOptions(r)
	}()
	select {
	case o := <-done:
		if v, ok := o[TAG_TP_pid]; ok && len(v.Value()) == 1 && v.Value()[0] == 7 {
			t.Log("WITNESS D5 ABSENT")
			return
		}
		t.Logf("WITNESS D5 MANIFESTS: ReadOptions returned %v for the single option TP_pid=7", o)
	case <-time.After(2 * time.Second):
		t.Logf("WITNESS D5 MANIFESTS: ReadOptions does not terminate on a 5-octet option tail")
	}
}
