package cmpp20

import "testing"

// D3: the 16-octet authenticator is read through the NUL-trimming primitive.
func TestVerifWitness_D3a(t *testing.T) {
	auth := "\x01\x02\x00\x04\x05\x06\x07\x08\x09\x0a\x0b\x0c\x0d\x0e\x0f\x10"
	p := &PduConnect{SourceAddr: "900001", AuthenticatorSource: auth, Version: 0x20, Timestamp: 1}
	data, err := p.IEncode()
	if err != nil {
		t.Fatalf("encode: %v", err)
	}
	q := new(PduConnect)
	if err := q.IDecode(data); err != nil {
		t.Fatalf("decode: %v", err)
	}
	r := &PduConnectResp{AuthenticatorISMG: auth}
	data2, _ := r.IEncode()
	r2 := new(PduConnectResp)
	_ = r2.IDecode(data2)
	if q.AuthenticatorSource != auth || r2.AuthenticatorISMG != auth {
		t.Logf("WITNESS D3a MANIFESTS: authenticator with a NUL octet decodes to %d / %d octets instead of 16", len(q.AuthenticatorSource), len(r2.AuthenticatorISMG))
		return
	}
	t.Log("WITNESS D3a ABSENT")
}
