package smgp

import "testing"

// D18: Options.Add has a value receiver; on a nil container it allocates a map only its own copy of the receiver sees,
// so the option is silently lost.
func TestVerifWitness_D18(t *testing.T) {
	var o Options
	o.Add(NewOption(TAG_TP_pid, []byte{1}))
	if len(o) == 0 {
		t.Logf("WITNESS D18 MANIFESTS: Add on a nil Options returned normally and the container is still empty")
		return
	}
	t.Log("WITNESS D18 ABSENT")
}
