package smpp

import "testing"

// D17: TLV.Bytes computes length+4 in uint16: a 65532-octet value makes the buffer 0 octets long and b[0:2] panics.
func TestVerifWitness_D17a(t *testing.T) {
	defer func() {
		if r := recover(); r != nil {
			t.Logf("WITNESS D17a MANIFESTS: TLV.Bytes panics for a 65532-octet value: %v", r)
		}
	}()
	v := NewTLV(0x0424, make([]byte, 65532))
	b := v.Bytes()
	if len(b) != 65536 {
		t.Logf("WITNESS D17a MANIFESTS: %d octets emitted for a 65532-octet value", len(b))
		return
	}
	t.Log("WITNESS D17a ABSENT")
}
