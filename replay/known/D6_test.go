package sgip_test

import (
	"runtime"
	"testing"

	"github.com/hujm2023/go-sms-protocol/sgip"
	"github.com/hujm2023/go-sms-protocol/sgip/sgip12"
)

// D6: the reader allocates the announced MessageLength before checking it against what remains (a 60-octet
// image announcing 512 MiB makes the decoder allocate 512 MiB).
func TestVerifWitness_D6(t *testing.T) {
	p := &sgip12.Deliver{Header: sgip.Header{CommandID: sgip.SGIP_DELIVER}, UserNumber: "8613800000000", SPNumber: "1065", MessageLength: 0}
	data, err := p.IEncode()
	if err != nil {
		t.Fatalf("encode: %v", err)
	}
	// MessageLength sits after header(20) + 21 + 21 + 3 octets
	off := 20 + 21 + 21 + 3
	data[off], data[off+1], data[off+2], data[off+3] = 0x20, 0, 0, 0 // 512 MiB
	var before, after runtime.MemStats
	runtime.ReadMemStats(&before)
	q := new(sgip12.Deliver)
	derr := q.IDecode(data)
	runtime.ReadMemStats(&after)
	delta := after.TotalAlloc - before.TotalAlloc
	if delta > 64<<20 {
		t.Logf("WITNESS D6 MANIFESTS: decoding a %d-octet image allocated %d MiB (err=%v)", len(data), delta>>20, derr)
		return
	}
	t.Log("WITNESS D6 ABSENT")
}
