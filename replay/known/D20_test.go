package smpp

import (
	"testing"
	"time"
)

// D20: the relative form prints days modulo 31: 31 days gives "", 32 days gives one day.
func TestVerifWitness_D20(t *testing.T) {
	now := time.Date(2024, 1, 1, 0, 0, 0, 0, time.UTC)
	a, errA := ToValidatePeriod(now, "744h", true) // 31 days
	b, errB := ToValidatePeriod(now, "768h", true) // 32 days
	if (errA == nil && a == "") || (errB == nil && b == "000001000000000R") {
		t.Logf("WITNESS D20 MANIFESTS: 744h -> %q (err %v), 768h -> %q (err %v)", a, errA, b, errB)
		return
	}
	t.Log("WITNESS D20 ABSENT")
}
