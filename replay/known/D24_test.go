package codec

import (
	"bufio"
	"bytes"
	"runtime"
	"testing"
)

type witConn24 struct{ *bufio.Reader }

func (w witConn24) Size() int { return w.Buffered() }

// D24 (known finding): the blocking extractor allocates the announced frame length before reading the frame.
func TestVerifWitness_D24(t *testing.T) {
	c := witConn24{bufio.NewReader(bytes.NewReader([]byte{0x20, 0, 0, 0, 1, 2, 3}))}
	var before, after runtime.MemStats
	runtime.ReadMemStats(&before)
	_, err := new(CMPPCodec).DecodeBlocked(c)
	runtime.ReadMemStats(&after)
	if d := after.TotalAlloc - before.TotalAlloc; d > 64<<20 {
		t.Logf("WITNESS D24 MANIFESTS: a 7-octet stream announcing 512 MiB made DecodeBlocked allocate %d MiB (err=%v)", d>>20, err)
		return
	}
	t.Log("WITNESS D24 ABSENT")
}
