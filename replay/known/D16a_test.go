package cmpp20

import (
	"errors"
	"testing"

	sms "github.com/hujm2023/go-sms-protocol"
)

// D16: the CMPP 2.0 dispatcher has no case for the query pair it can encode.
func TestVerifWitness_D16a(t *testing.T) {
	p := &PduQuery{Time: "20240101", QueryCode: "x"}
	p.CommandID = 0x00000006
	data, err := p.IEncode()
	if err != nil {
		t.Fatalf("encode: %v", err)
	}
	_, err = DecodeCMPP20(data)
	if errors.Is(err, sms.ErrUnsupportedPacket) {
		t.Logf("WITNESS D16a MANIFESTS: DecodeCMPP20 answers ErrUnsupportedPacket for an encoded PduQuery")
		return
	}
	t.Log("WITNESS D16a ABSENT")
}
