package codec

import (
	"bufio"
	"bytes"
	"testing"
)

type witConn struct{ *bufio.Reader }

func (w witConn) Size() int { return w.Buffered() }

// D8: a length prefix smaller than the prefix itself: the non-blocking extractor yields an empty frame without
// consuming anything, the blocking extractor panics.
func TestVerifWitness_D8(t *testing.T) {
	mk := func(b []byte) witConn {
		r := bufio.NewReader(bytes.NewReader(b))
		r.Peek(len(b))
		return witConn{r}
	}
	c := mk([]byte{0, 0, 0, 0, 1, 2, 3, 4})
	f, err := new(CMPPCodec).Decode(c)
	bad := err == nil
	panicked := false
	func() {
		defer func() {
			if recover() != nil {
				panicked = true
			}
		}()
		_, _ = new(CMPPCodec).DecodeBlocked(mk([]byte{0, 0, 0, 2, 9, 9}))
	}()
	if bad || panicked {
		t.Logf("WITNESS D8 MANIFESTS: Decode on prefix 0 returned frame %v err %v (buffered still %d); DecodeBlocked on prefix 2 panicked: %v", f, err, c.Size(), panicked)
		return
	}
	t.Log("WITNESS D8 ABSENT")
}
