package cmpp30

import "testing"

// D3: the 16-octet authenticators of the CMPP 3.0 connect exchange are read through the NUL-trimming primitive.
func TestVerifWitness_D3b(t *testing.T) {
	auth := "\x01\x02\x00\x04\x05\x06\x07\x08\x09\x0a\x0b\x0c\x0d\x0e\x0f\x10"
	p := &Connect{SourceAddr: "900001", AuthenticatorSource: auth, Version: 0x30, Timestamp: 1}
	data, err := p.IEncode()
	if err != nil {
		t.Fatalf("encode: %v", err)
	}
	q := new(Connect)
	_ = q.IDecode(data)
	r := &ConnectResp{AuthenticatorISMG: auth}
	data2, _ := r.IEncode()
	r2 := new(ConnectResp)
	_ = r2.IDecode(data2)
	if q.AuthenticatorSource != auth || r2.AuthenticatorISMG != auth {
		t.Logf("WITNESS D3b MANIFESTS: authenticator with a NUL octet decodes to %d / %d octets instead of 16", len(q.AuthenticatorSource), len(r2.AuthenticatorISMG))
		return
	}
	t.Log("WITNESS D3b ABSENT")
}
