package gsm7encoding

import (
	"bytes"
	"testing"
)

// D10: in every full 7-octet block Unpack drops the eighth septet when the block's last octet is zero, not only at the end
// of the message: "1234567@abcdefgh" ('@' is septet 0 and is followed by 'a' = 0x61, whose low bit makes the octet ... 0).
func TestVerifWitness_D10(t *testing.T) {
	septets := []byte{0x31, 0x32, 0x33, 0x34, 0x35, 0x36, 0x37, 0x00, 0x00, 0x62, 0x63, 0x64, 0x65, 0x66, 0x67, 0x68}
	got := Unpack(Pack(septets))
	if !bytes.Equal(got, septets) {
		t.Logf("WITNESS D10 MANIFESTS: Unpack(Pack(%x)) = %x", septets, got)
		return
	}
	t.Log("WITNESS D10 ABSENT")
}
