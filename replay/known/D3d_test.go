package smgp30

import "testing"

// D3 (residual, known finding): SMGP login response: AuthenticatorServer is NUL-trimmed; the existing tests pin that reading.
func TestVerifWitness_D3d(t *testing.T) {
	auth := "\x01\x02\x00\x04\x05\x06\x07\x08\x09\x0a\x0b\x0c\x0d\x0e\x0f\x10"
	p := &LoginResp{Status: 0, AuthenticatorServer: auth, ServerVersion: 0x30}
	data, err := p.IEncode()
	if err != nil {
		t.Fatalf("encode: %v", err)
	}
	q := new(LoginResp)
	_ = q.IDecode(data)
	if q.AuthenticatorServer != auth {
		t.Logf("WITNESS D3d MANIFESTS: AuthenticatorServer with a NUL octet decodes to %d octets instead of 16", len(q.AuthenticatorServer))
		return
	}
	t.Log("WITNESS D3d ABSENT")
}
