package gsm7encoding

import "testing"

// D9: Unpack of an empty octet string indexes septets[len-1] with len == 0.
func TestVerifWitness_D9(t *testing.T) {
	defer func() {
		if r := recover(); r != nil {
			t.Logf("WITNESS D9 MANIFESTS: Unpack([]byte{}) panics: %v", r)
		}
	}()
	if got := Unpack([]byte{}); len(got) != 0 {
		t.Logf("WITNESS D9 MANIFESTS: Unpack of nothing returned %v", got)
		return
	}
	t.Log("WITNESS D9 ABSENT")
}
