package smgp

import "testing"

// D17: Option.Bytes computes length+4 in uint16: a 65532-octet value makes the buffer 0 octets long and b[:2] panics.
func TestVerifWitness_D17b(t *testing.T) {
	defer func() {
		if r := recover(); r != nil {
			t.Logf("WITNESS D17b MANIFESTS: Option.Bytes panics for a 65532-octet value: %v", r)
		}
	}()
	o := NewOption(TAG_MsgSrc, make([]byte, 65532))
	b := o.Bytes()
	if len(b) != 65536 {
		t.Logf("WITNESS D17b MANIFESTS: %d octets emitted for a 65532-octet value", len(b))
		return
	}
	t.Log("WITNESS D17b ABSENT")
}
