package protocol

import (
	"context"
	"strings"
	"testing"
	"unicode/utf16"

	"github.com/hujm2023/go-sms-protocol/datacoding"
)

// D14 (known finding): the generic splitter cuts every 134 octets (153 septets) regardless of character boundaries:
// a UTF-16 surrogate pair at octets 132..135 is split between part 1 and part 2.
func TestVerifWitness_D14(t *testing.T) {
	content := strings.Repeat("中", 66) + "😀" + strings.Repeat("中", 10) // 66*2 = 132 octets, then a surrogate pair
	parts, coding, err := EncodeCMPPContentAndSplit(context.Background(), content, datacoding.CMPP_CODING_UCS2, 1)
	if err != nil || len(parts) < 2 {
		t.Fatalf("unexpected: %v %d", err, len(parts))
	}
	p := parts[0][6:]
	last := uint16(p[len(p)-2])<<8 | uint16(p[len(p)-1])
	if utf16.IsSurrogate(rune(last)) && last < 0xDC00 {
		t.Logf("WITNESS D14 MANIFESTS: coding %d, part 1 ends with the high surrogate %#04x; its low surrogate starts part 2", coding, last)
		return
	}
	t.Log("WITNESS D14 ABSENT")
}
