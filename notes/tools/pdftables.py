#!/usr/bin/env python3
"""Dump the text of the protocol PDFs in /repo/doc as lines sorted by page position.

Pure Python (no PDF library is installed in this sandbox).  Handles exactly what the
five documents need:
  * FlateDecode content streams,
  * fonts with /ToUnicode CMaps (bfchar / bfrange, 1- or 2-byte codes),
  * the standard security handler V2/R3 (RC4-128) with the empty user password
    (the SMGP 3.0.3 file is encrypted),
  * enough of the text-positioning operators (cm, q/Q, Tm, Td, TD, T*, Tf, Tj, TJ, ', ")
    to put fragments back into reading order.

Purpose: auditing the transcription of the wire-layout tables (field name, octets,
type) into /verif/specs/layouts/*.json.  It is not part of any check.

usage: pdftables.py FILE.pdf [> out.txt]
"""
import hashlib
import re
import sys
import zlib

PAD = bytes([0x28, 0xBF, 0x4E, 0x5E, 0x4E, 0x75, 0x8A, 0x41, 0x64, 0x00, 0x4E, 0x56, 0xFF, 0xFA, 0x01, 0x08,
             0x2E, 0x2E, 0x00, 0xB6, 0xD0, 0x68, 0x3E, 0x80, 0x2F, 0x0C, 0xA9, 0xFE, 0x64, 0x53, 0x69, 0x7A])


def rc4(key, data):
    s = list(range(256))
    j = 0
    for i in range(256):
        j = (j + s[i] + key[i % len(key)]) & 255
        s[i], s[j] = s[j], s[i]
    i = j = 0
    out = bytearray()
    for b in data:
        i = (i + 1) & 255
        j = (j + s[i]) & 255
        s[i], s[j] = s[j], s[i]
        out.append(b ^ s[(s[i] + s[j]) & 255])
    return bytes(out)


def pdf_literal(b):
    """Decode the body of a PDF literal string (escapes resolved)."""
    out = bytearray()
    i = 0
    esc = {ord('n'): 10, ord('r'): 13, ord('t'): 9, ord('b'): 8, ord('f'): 12}
    while i < len(b):
        c = b[i]
        if c == 0x5C and i + 1 < len(b):
            i += 1
            c = b[i]
            if c in esc:
                out.append(esc[c])
            elif 48 <= c <= 55:
                j, v = i, 0
                while j < len(b) and j < i + 3 and 48 <= b[j] <= 55:
                    v = v * 8 + b[j] - 48
                    j += 1
                out.append(v & 255)
                i = j - 1
            elif c in (10, 13):
                pass
            else:
                out.append(c)
        else:
            out.append(c)
        i += 1
    return bytes(out)


def file_key(data):
    if b'/Encrypt' not in data:
        return None
    start = data.find(b'/O(') + 3
    i, depth, buf = start, 1, bytearray()
    while True:
        c = data[i]
        if c == 0x5C:
            buf += data[i:i + 2]
            i += 2
            continue
        if c == 0x28:
            depth += 1
        if c == 0x29:
            depth -= 1
            if depth == 0:
                break
        buf.append(c)
        i += 1
    o = pdf_literal(bytes(buf))
    p = int(re.search(rb'/P (-?\d+)', data).group(1)) & 0xFFFFFFFF
    fid = bytes.fromhex(re.search(rb'/ID\s*\[\s*<([0-9A-Fa-f]+)>', data).group(1).decode())
    h = hashlib.md5(PAD + o + p.to_bytes(4, 'little') + fid).digest()
    for _ in range(50):
        h = hashlib.md5(h[:16]).digest()
    return h[:16]


def load_objects(data):
    key = file_key(data)
    store = {}
    for m in re.finditer(rb'(\d+) (\d+) obj(.*?)endobj', data, re.S):
        num, gen, body = int(m.group(1)), int(m.group(2)), m.group(3)
        sm = re.search(rb'stream\r?\n', body)
        if not sm:
            store[num] = (None, body)
            continue
        hdr = body[:sm.start()]
        raw = body[sm.end():]
        raw = raw[:raw.rfind(b'endstream')]
        lm = re.search(rb'/Length (\d+)(?![\d ]*\d R)\b', hdr)
        raw = raw[:int(lm.group(1))] if lm else raw.rstrip(b'\r\n')
        if key:
            raw = rc4(hashlib.md5(key + num.to_bytes(3, 'little') + gen.to_bytes(2, 'little')).digest()[:16], raw)
        if b'FlateDecode' in hdr:
            try:
                raw = zlib.decompress(raw)
            except Exception:
                try:
                    raw = zlib.decompressobj().decompress(raw)
                except Exception:
                    raw = None
        store[num] = (raw, hdr)
    return store


def parse_cmap(s):
    mp = {}
    for blk in re.findall(rb'beginbfchar(.*?)endbfchar', s, re.S):
        for a, b in re.findall(rb'<([0-9A-Fa-f]+)>\s*<([0-9A-Fa-f]+)>', blk):
            mp[int(a, 16)] = bytes.fromhex(b.decode()).decode('utf-16-be', 'replace')
    for blk in re.findall(rb'beginbfrange(.*?)endbfrange', s, re.S):
        for a, b, c in re.findall(rb'<([0-9A-Fa-f]+)>\s*<([0-9A-Fa-f]+)>\s*<([0-9A-Fa-f]+)>', blk):
            a, b, c = int(a, 16), int(b, 16), int(c, 16)
            for k in range(a, b + 1):
                mp[k] = chr(c + k - a)
    return mp


def font_tables(store):
    fmaps = {}
    for num, (s, h) in store.items():
        tm = re.search(rb'/ToUnicode (\d+) 0 R', h)
        if tm and store.get(int(tm.group(1)), (None,))[0]:
            cm = store[int(tm.group(1))][0]
            two = bool(re.search(rb'begincodespacerange\s*<[0-9A-Fa-f]{4}>', cm))
            fmaps[num] = (parse_cmap(cm), 2 if two else 1)
    names = {}
    for num, (s, h) in store.items():
        for f in re.finditer(rb'/Font\s*<<(.*?)>>', h, re.S):
            for n, o in re.findall(rb'/([A-Za-z0-9_+]+) (\d+) 0 R', f.group(1)):
                names.setdefault(n, int(o))
    # font dictionaries referenced indirectly (/Font 5 0 R): any name that points at a font object
    fonts = {num for num, (s, h) in store.items() if re.search(rb'/Type\s*/Font\b', h) and b'/FontDescriptor' not in h[:40]}
    for num, (s, h) in store.items():
        if s is None:
            for n, o in re.findall(rb'/([A-Za-z0-9_+]+) (\d+) 0 R', h):
                if int(o) in fonts:
                    names.setdefault(n, int(o))
    return fmaps, names


def mat_mul(a, b):
    return (a[0] * b[0] + a[1] * b[2], a[0] * b[1] + a[1] * b[3],
            a[2] * b[0] + a[3] * b[2], a[2] * b[1] + a[3] * b[3],
            a[4] * b[0] + a[5] * b[2] + b[4], a[4] * b[1] + a[5] * b[3] + b[5])


TOKEN = re.compile(rb'\[(?:[^\]\\]|\\.)*\]|\((?:\\.|[^\\\)])*\)|<[0-9A-Fa-f\s]*>|/[^\s/\[\]\(\)<>]+|[-+]?\d*\.?\d+|[A-Za-z\'"\*]+')


def page_items(stream, fmaps, names):
    ident = (1.0, 0.0, 0.0, 1.0, 0.0, 0.0)
    ctm, stack = ident, []
    tm = tlm = ident
    font = None
    leading = 0.0
    ops = []
    items = []

    def decode(tok):
        ishex = tok[:1] == b'<'
        raw = bytes.fromhex(re.sub(rb'\s', b'', tok[1:-1]).decode() + ('0' if ishex and len(re.sub(rb'\s', b'', tok[1:-1])) % 2 else '')) if ishex else pdf_literal(tok[1:-1])
        fo = names.get(font)
        if fo in fmaps:
            mp, cl = fmaps[fo]
            return ''.join(mp.get(int.from_bytes(raw[i:i + cl], 'big'), '?') for i in range(0, len(raw), cl))
        return raw.decode('latin1')

    def show(text):
        if text.strip():
            m = mat_mul(tm, ctm)
            items.append((m[5], m[4], text))

    for t in TOKEN.finditer(stream):
        tok = t.group(0)
        c = tok[:1]
        if c in b'[(</' or re.fullmatch(rb'[-+]?\d*\.?\d+', tok):
            ops.append(tok)
            continue
        op = tok
        try:
            if op == b'q':
                stack.append(ctm)
            elif op == b'Q':
                ctm = stack.pop() if stack else ident
            elif op == b'cm':
                ctm = mat_mul(tuple(float(x) for x in ops[-6:]), ctm)
            elif op == b'BT':
                tm = tlm = ident
            elif op == b'Tm':
                tm = tlm = tuple(float(x) for x in ops[-6:])
            elif op in (b'Td', b'TD'):
                tx, ty = float(ops[-2]), float(ops[-1])
                if op == b'TD':
                    leading = -ty
                tlm = mat_mul((1, 0, 0, 1, tx, ty), tlm)
                tm = tlm
            elif op == b'TL':
                leading = float(ops[-1])
            elif op == b'T*':
                tlm = mat_mul((1, 0, 0, 1, 0, -leading), tlm)
                tm = tlm
            elif op == b'Tf':
                font = ops[-2][1:]
            elif op == b'Tj':
                show(decode(ops[-1]))
            elif op in (b"'", b'"'):
                tlm = mat_mul((1, 0, 0, 1, 0, -leading), tlm)
                tm = tlm
                show(decode(ops[-1]))
            elif op == b'TJ':
                arr = ops[-1]
                text = ''
                for part in re.finditer(rb'\((?:\\.|[^\\\)])*\)|<[0-9A-Fa-f\s]*>', arr[1:-1]):
                    text += decode(part.group(0))
                show(text)
        except (IndexError, ValueError):
            pass
        ops = []
    return items


def main():
    data = open(sys.argv[1], 'rb').read()
    store = load_objects(data)
    fmaps, names = font_tables(store)
    for num, (s, h) in sorted(store.items()):
        if not s or b'BT' not in s:
            continue
        items = page_items(s, fmaps, names)
        if not items:
            continue
        flipped = False
        # pages whose CTM flips the y axis have increasing y downwards
        ys = [y for y, _, _ in items]
        items.sort(key=lambda it: (-it[0], it[1]))
        lines, cur, cur_y = [], [], None
        for y, x, text in items:
            if cur_y is None or abs(y - cur_y) > 3.0:
                if cur:
                    lines.append(cur)
                cur, cur_y = [], y
            cur.append((x, text))
        if cur:
            lines.append(cur)
        print('=== object %d' % num)
        for ln in lines:
            ln.sort()
            out, last_x = '', None
            for x, text in ln:
                if last_x is not None and x - last_x > 14:
                    out += '  |  '
                out += text
                last_x = x
            print(out)


if __name__ == '__main__':
    main()
