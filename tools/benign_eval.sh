#!/bin/bash
# tools/benign_eval.sh <dir-under-/tmp> <name> <property> <demo-package-dir> [more properties...]
# A behaviour-preserving refactor written by a sub-agent (false-alarm canary):
# 1. copies the deliverables to /verif/seeded/<name>
# 2. confirms them in a scratch worktree (demo passes without and with the patch; suite still green)
# 3. runs the registered quick checks against the patched worktree (VERIF_REPO): every one must exit 0
set -u
export GOFLAGS=-mod=mod GOPROXY=off GOSUMDB=off GOTOOLCHAIN=local
SRC=$1; NAME=$2; PROP=$3; PKG=$4; shift 4; EXTRA="$@"
OUT=/verif/seeded/$NAME
mkdir -p $OUT
cp $SRC/SEED/patch.diff $SRC/SEED/demo_test.go $SRC/SEED/meta.json $OUT/ 2>/dev/null
W=/var/tmp/benchk_$NAME
rm -rf $W; git -C /repo worktree add -q --detach $W HEAD || exit 2
res() { echo "$1" | tee -a $OUT/confirm.log; }
: > $OUT/confirm.log
cp $OUT/demo_test.go $W/$PKG/zz_benign_demo_test.go
( cd $W && go test -vet=off -count=1 -run 'Benign' ./$PKG/ >$OUT/demo_without.log 2>&1 ) && res "demo WITHOUT patch: pass" || res "demo WITHOUT patch: FAIL (unexpected)"
( cd $W && git apply $OUT/patch.diff ) && res "patch applies" || res "patch DOES NOT APPLY"
( cd $W && go build ./... >$OUT/build.log 2>&1 ) && res "builds with patch" || res "BUILD FAILS with patch"
( cd $W && go test -vet=off -count=1 -run 'Benign' ./$PKG/ >$OUT/demo_with.log 2>&1 ) && res "demo WITH patch: pass" || res "demo WITH patch: FAILS (not behaviour-preserving?)"
rm -f $W/$PKG/zz_benign_demo_test.go
( cd $W && go test -vet=off -count=1 ./... 2>&1 | grep -v "^ok\|no test files\|sgip12\|mockey\|^FAIL$" | head -5 >$OUT/suite_with.log ); [ -s $OUT/suite_with.log ] && res "SUITE NOT GREEN with patch: $(head -2 $OUT/suite_with.log)" || res "existing suite green with patch (sgip12 link failure pre-existing)"
for P in $PROP $EXTRA; do
  ( cd /verif && VERIF_REPO=$W VERIF_EVIDENCE_DIR=/var/tmp/ev_ben_$NAME ./check $P quick > $OUT/check_$P.log 2>&1 ); RC=$?
  rm -rf /var/tmp/ev_ben_$NAME
  res "check $P: exit $RC, $(grep -c '^VIOLATION' $OUT/check_$P.log) VIOLATION line(s): $(grep '^VIOLATION' $OUT/check_$P.log | head -2 | sed 's/replay=[^ ]* //' | cut -c1-260)"
done
git -C /repo worktree remove --force $W
