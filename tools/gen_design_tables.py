#!/usr/bin/env python3
"""Regenerate the tables between <!-- GENERATED:TABLES --> and <!-- /GENERATED:TABLES --> in DESIGN.md from
known_findings.json, evidence/*.json, seeded/*/meta.json + confirm.log and selftest/last_run.json."""
import json, glob, os, re

R = '/verif'
out = []
kf = json.load(open(R + '/known_findings.json'))

man = json.load(open(R + '/MANIFEST.json'))
out.append('#### T0. What each registered check decides (claim texts of MANIFEST.json) and what it leaves assumed\n')
for c in man['checks']:
    note = c['level_note']
    i = note.find('(A-LEN). ')
    if i >= 0:
        note = note[i + 9:]
    out.append('* **%s** - %s  \n  *Left assumed / not covered:* %s' % (c['property_id'], c['level_claimed']['text'], note or 'nothing beyond the common trusted base (9.5).'))
out.append('')
for n in man.get('not_applicable', []):
    out.append('* **%s** - not claimed: %s' % (n['property_id'], n['reason']))
out.append('')
out.append('#### T1. Per-property numbers of the last quick run on the unchanged tree (from evidence/*.json)\n')
out.append('| property | level | functions under contract (incl. dependency closure) | obligations to discharge | discharged | excluded by known findings | wall s |')
out.append('|---|---|---|---|---|---|---|')
for f in sorted(glob.glob(R + '/evidence/C*.json')):
    e = json.load(open(f))
    c = e.get('coverage', {})
    out.append('| %s | %s | %s | %s | %s | %s | %.0f |' % (e['property_id'], e['level'], len(c.get('functions_under_contract', [])), c.get('obligations'), c.get('discharged'),
                                                      c.get('obligations_excluded_by_known_findings'), e.get('wall_s', 0)))
out.append('')

out.append('#### T2. Genuine defects found by failing obligations (each confirmed by a witness test on the real code)\n')
out.append('| id | properties | state | obligation that failed | what fails |')
out.append('|---|---|---|---|---|')
for k in kf['findings']:
    ob = k.get('obligation') or (k.get('obligations') or [''])[0]
    out.append('| %s | %s | **known finding** (recorded, not repaired) | `%s` | %s |' % (k['id'], ' '.join(k.get('properties') or [k.get('property', '')]), ob, k['what'].replace('|', '/')))
for k in kf['fixed']:
    what = re.sub(r'^fixed: property=\S+ \S+ ', '', k['what'])
    out.append('| %s | %s | fixed in `%s` | `%s` | %s |' % (k['id'], ' '.join(k.get('properties') or [k.get('property', '')]), k['commit'], k.get('obligation', ''), what.replace('|', '/')))
out.append('')

out.append('#### T3. Seeded changes written by sub-agents that saw only the property text and a worktree of /repo\n')
out.append('| seed | property | change (sub-agent\'s summary, shortened) | confirmed (demo fails with patch, passes without; suite green) | caught by |')
out.append('|---|---|---|---|---|')
last = {}
if os.path.exists(R + '/selftest/last_run.json'):
    for r in json.load(open(R + '/selftest/last_run.json'))['results']:
        last[r['id']] = r
for d in sorted(glob.glob(R + '/seeded/*')):
    if not os.path.exists(d + '/meta.json'):
        continue
    m = json.load(open(d + '/meta.json'))
    if str(m.get('kind', '')).startswith('benign'):
        continue  # behaviour-preserving refactors: table T3b
    name = os.path.basename(d)
    conf = open(d + '/confirm.log').read() if os.path.exists(d + '/confirm.log') else ''
    okc = 'yes' if ('demo WITH patch: fails' in conf and 'demo WITHOUT patch: pass' in conf) else 'see confirm.log'
    caught = ''
    r = last.get(name)
    if r:
        caught = '; '.join('%s: %s' % (p, (re.search(r'obligation="([^"]+)"', c['first']) or re.search(r'(finding=\S+)', c['first']) or [None, 'exit %d' % c['exit']])[1]) for p, c in r['checks'].items())
    if m.get('kind') == 'break-uncovered':
        caught = '**NOT DETECTED** (documented exclusion of the claim; see uncovered_note in meta.json)'
    elif not caught and 'VIOLATION' in conf:
        mm = re.search(r'obligation="([^"]+)"', conf) or re.search(r'(bounded-stand-in failing input)', conf)
        caught = '%s: %s (confirm.log; not yet in a full self-test run)' % (m.get('property'), mm.group(1) if mm else 'exit 1')
    out.append('| %s | %s | %s | %s | %s |' % (name, m.get('property'), m.get('summary', '')[:260].replace('|', '/').replace('\n', ' '), okc, caught))
out.append('')

out.append('#### T3b. Behaviour-preserving refactors written by sub-agents (must stay quiet)\n')
out.append('| refactor | property | change (sub-agent\'s summary, shortened) | confirmed (demo passes with and without the patch; suite green) | checks (last self-test run) |')
out.append('|---|---|---|---|---|')
for d in sorted(glob.glob(R + '/seeded/*')):
    if not os.path.exists(d + '/meta.json'):
        continue
    m = json.load(open(d + '/meta.json'))
    if not str(m.get('kind', '')).startswith('benign'):
        continue
    name = os.path.basename(d)
    conf = open(d + '/confirm.log').read() if os.path.exists(d + '/confirm.log') else ''
    okc = 'yes' if ('demo WITH patch: pass' in conf and 'demo WITHOUT patch: pass' in conf and 'suite green' in conf) else 'see confirm.log'
    if m.get('kind') == 'benign-rejected':
        okc = 'REJECTED: not behaviour-preserving (see meta.json); not part of the corpus'
    if m.get('kind') == 'benign-limit':
        okc += '; ALARM REMAINS: the loop invariants need re-annotation (limit_note in meta.json); not part of the must-stay-quiet corpus'
    r = last.get(name)
    res = ' '.join('%s:%d/%d' % (p, c['exit'], c['violations']) for p, c in r['checks'].items()) if r else ''
    out.append('| %s | %s | %s | %s | %s |' % (name, m.get('property'), m.get('summary', '')[:260].replace('|', '/').replace('\n', ' '), okc, res))
out.append('')

if last:
    lr = json.load(open(R + '/selftest/last_run.json'))
    out.append('#### T4. Self-test corpus, last run (`tools/selftest.py`, repo head %s, %s): %d entries, %d not PASS\n' % (lr['repo_head'], lr['when'], lr['total'], lr['not_pass']))
    out.append('| id | kind | expectation met | checks run (exit/violations) | edit |')
    out.append('|---|---|---|---|---|')
    for r in lr['results']:
        if r['source'] == 'seeded':
            continue
        out.append('| %s | %s | %s | %s | %s |' % (r['id'], r['kind'], r['status'], ' '.join('%s:%d/%d' % (p, c['exit'], c['violations']) for p, c in r['checks'].items()), r.get('why', '').replace('|', '/')))
    out.append('')

s = open(R + '/DESIGN.md').read()
a, b = '<!-- GENERATED:TABLES -->', '<!-- /GENERATED:TABLES -->'
if a in s:
    s = s[:s.index(a) + len(a)] + '\n' + '\n'.join(out) + '\n' + s[s.index(b):]
    open(R + '/DESIGN.md', 'w').write(s)
    print('tables regenerated:', len(out), 'lines')
else:
    print('\n'.join(out))
