#!/usr/bin/env python3
"""Regenerate /verif/MANIFEST.json from the claim table below (kept here so the file stays valid and current)."""
import json, subprocess

TECH = ("contract-based deductive verification: //@ contracts (build tag verif) on the real functions, verification "
        "conditions generated from go/ssa of /repo's working tree, discharged by z3 4.8.12 / z3 5.1.0 / cvc5 1.0")
BASE_NOTE = ("Assumed (listed per run in evidence.assumptions): documented behaviour of the external functions modelled in "
             "engine/intrinsics.go (bytes.Buffer, encoding/binary, bytebufferpool, fmt.Errorf, errors.Is, hex); the byte-sequence "
             "theory T0 (18 axioms proved in Lean, the rest assumed); go/packages+go/ssa and the VC generator; solver soundness; "
             "tree-shaped inputs (A-SEP); int arithmetic on lengths is mathematical (A-LEN). ")

CLAIMS = {
 "C09": ("PARTIAL, and the category is therefore `other`, not `proof`. Proved for all inputs: the priority tables (every entry pinned; priorities of the valid codings of one protocol pairwise distinct and positive), "
         "byLength and byDataCoding, their composition in batchEncoderSorter.Less (= fewer parts first, then the smaller priority value: a strict total order on candidates of one protocol), "
         "the per-candidate encoder.Run (for every protocol / coding / content: whether the candidate can encode, and its parts, are exactly what the single-coding entry points of C06/C07 give, more than 255 parts refused; it writes only its own result members, which is what makes the per-candidate goroutines independent), and Result. "
         "NOT proved: BatchDataCodingEncoder.Build itself (iteration over a map with interface keys, one goroutine per candidate, lo.Filter, sort.Sort, the UCS-2 fallback) - outside the verifier's subset. It is covered by a BOUNDED stand-in run on every check (validators TestValidator_BUILD): every non-empty subset of the CMPP codings {0,8,9,15} and SMPP codings {0,1,3,8,99} x origin choices (none, valid, invalid) x a content corpus x three presentations (given order, shuffled, shuffled+duplicated under a random GOMAXPROCS) against an independent oracle (fewest parts, documented priority on ties, UCS-2 fallback, error only when nothing can or the request is empty, parts equal to the single-coding path). "
         "A failure of the stand-in is reported as a VIOLATION with the failing request.",
         "sort.Sort, errgroup and lo.Filter are not modelled; scheduling independence is argued from Run's frame condition plus the bounded runs, not proved (C13 is not applicable to this technique). Codecs other than ASCII / packed GSM 7-bit are assumed (A-XTEXT, bounded stand-in). "),
 "C03": ("Every function under contract is executed symbolically for ALL inputs with every implicit Go check turned into an obligation (index/slice bounds, nil dereference, nil-map store, "
         "negative make, division by zero, failed type assertion); every loop carries a variant (termination) and every allocation is charged to the ghost counter `alloc`, "
         "bounded by a linear function of the input length in each parser's contract (so an unchecked length field cannot buy memory); every decoder has the clause "
         "'input shorter than the mandatory part => err != nil'. Covered: the IDecode of all 57 PDU types and the CMPP status report, the four dispatchers and PeekHeader functions, "
         "packet.Reader, the TLV/option parsers, the concatenation-header parser, both receipt parsers, the frame extractors, GSM 7-bit unpack/decode, the UCS-2 decoders. "
         "Known finding D24 (blocking frame reader allocates up to the configured 1 MiB cap before the octets arrive) is carved out and replayed. Repaired: D4, D5, D6, D8, D9, D10, D13, D15, D16a-c, D17a-b, D25.",
         "Allocation is counted in octets requested from make/append/copy-out models, not measured; wall-clock time is represented by termination plus loop variants bounded by the input length. Callees outside the repository are assumed total (A-EXT). "),
 "C12": ("Ownership as a ghost predicate: fresh(x) = the backing memory of x was allocated inside the call and is not owned by a pool. Proved: Writer.Bytes/BytesWithLength, TLV.Bytes, Option.Bytes, every IEncode (err == nil => fresh(result)); "
         "Reader.ReadNBytes and every []byte member / optional-parameter value stored by every IDecode, ReadTLVs, ReadTLVs1, ReadOptions, ParseOptions (loop invariant: the map built so far owns all its values); every destination list ([]string member) a submit decoder stores is newly allocated or without backing memory when the object brought no capacity, "
         "and - behaviour `reuse`, decoding into an object that already holds an earlier result - nothing is written through the list the object held on entry (kept(m)): slices carry an unknown spare capacity, append to foreign memory is explored as 'fits: in place' / 'reallocated'. "
         "A result that is fresh at return cannot be changed by any later call that does not receive it (separation of allocations), which is the history-independent form of the property. Repaired: D22 (SMGP submit option values aliased the input).",
         "Strings are immutable values in the model; the engine scans the SSA of the repository for unsafe string/slice conversions on every run (none), and strings.Builder/bytebufferpool String() are assumed to hand out immutable strings (A-STR). Frames returned by the zero-copy extractors are views by design and are not claimed fresh. That the parts of a splitter's [][]byte result do not overlap in memory (up to their capacities) is not expressible in the model (octet slices carry no capacity): a BOUNDED stand-in (TestValidator_SPLITOWN: 24 texts x 9 codings, pairwise disjoint backing ranges, spare capacity written) runs on every check; not proved. "),
 "C01": ("For each of the 57 PDU types (+ the CMPP status report) the table-derived contracts are proved on the real IEncode/IDecode: "
         "WF(p) => IEncode succeeds, leaves p unchanged up to the documented normalisations and returns layout_T(p) with the real length in octets 0-3; "
         "IDecode(layout_T(q)) yields q in every member for every well-formed q (ghost), all field values, all destination-list lengths (loop invariants), "
         "optional parameters in any emission order (permutation-quantified, parser loops proved); an over-long fixed-width value makes IEncode fail. "
         "Round trip is the composition of the two contracts. Known findings D2, D3d are carved out exactly and replayed.",
         "The layout tables (specs/layouts, transcribed from doc/) are the specification (A-TABLES). "),
 "C02": ("Same obligations read against the document: result == layout_T(p) octet for octet (big-endian integers, NUL padding, C-strings, length prefix, header offsets) "
         "and IDecode of an independently assembled conformant image returns the carried values. The oracle is the table, never the sibling function. "
         "Known findings D2, D3d, D28 (document vs code) carved out and replayed.",
         "The layout tables are trusted transcriptions of doc/*.pdf (A-TABLES). "),
 "C04": ("Per-call contracts of the four frame extractors over an abstract ConnReader (ghost buffered octets / ghost stream): a complete frame is returned exactly and exactly its octets are consumed; "
         "an incomplete buffer gives ErrPacketNotComplete and consumes nothing; a prefix below 4 is refused; the blocking extractor returns a whole frame or an error, never a partial frame, returns every complete frame of a stream without transport failures (nofault) and refuses a prefix below 4. "
         "Arrival patterns are discharged by the prefix-stability lemmas (a complete frame stays the same frame whatever arrives after it; the length field depends on the first four octets only), proved from T0.",
         "ConnReader / io.ReadFull behave as the interface comment says (A-CONN); the induction over the chunk sequence that combines the per-call contract with the lemmas is a paper step. "),
 "C05": ("ASCII codec proved (isASCII loop, identity image, refusal). GSM 7-bit: gsm7encoding.Encode/Decode proved rune by rune against the tables (a rune outside both tables is refused, never replaced or dropped), the tables proved mutually inverse, "
         "Decode(Encode(s)) == s proved by induction for valid UTF-8 (gsm_text_roundtrip), the packed codec GSM7Packed.Encode/Decode proved to be Pack.Encode / Decode.Unpack with Pack/Unpack bit-exact under C08 and Unpack-inverts-Pack septet by septet (the property's end-of-message carve-out exactly). "
         "Coding-number functions proved by case analysis over all numbers; DecodeCMPPCContent / DecodeSMPPCContent proved to select, for every coding number, the decoder of the coding that the encoders select for the same number and to refuse every other number with ErrUnsupportedDataCoding; "
         "lemmas (CMPP and SMPP numbers): for valid UTF-8 text, given the inverse law of the assumed codecs, the selected decoder inverts the selected encoder.",
         "ASSUMED, not proved (A-XTEXT): Latin-1 (Windows-1252), UCS-2, GB18030 and the stream-transformer form of unpacked GSM 7-bit go through x/text's transform.Bytes; their 'either fail or emit what the decoder inverts' law is a hypothesis of the lemmas (uninterpreted xenc/xdec/xok) and is checked only by the thorough tier's bounded validator over every Unicode scalar value (GB18030 private-use carve-out as in the property). The last composition step Unpack(Pack(X)) == X between the bit-vector level and the sequence level is a stated hypothesis. "),
 "C06": ("splitWithUDHI proved (loop invariant) to produce exactly ceil(n/per) parts, part k being the 6-octet header followed by octets [per*k, min(per*(k+1), n)) of the encoded data - pointwise, so nothing is lost, repeated or reordered; "
         "EncodeCMPPContentAndSplit / EncodeSMPPContentAndSplit proved over all coding numbers: the reported coding is the requested one when it is valid and its codec accepts the text, UCS-2 otherwise, an error only if UCS-2 fails too; a message that fits is one part without header; "
         "the packed GSM 7-bit splitter proved with recursive spec functions (cut points, part count) to cover the septet string exactly once. Repaired: D11, D12, D26.",
         "The codecs other than ASCII are assumed (A-XTEXT); 'concatenating the ranges [per*k, ...) gives the whole string' is the telescoping step left on paper; Pack's and Encode's values are named by uninterpreted functions at call sites (A-DET). "),
 "C07": ("Same contracts, size side: every part is the header 05 00 03 ref total seq followed by at most 134 octets (153 septets), non-empty, seq = k+1, total = number of parts <= 255, more than 255 parts refused with an error (proved for the generic and the packed splitter); "
         "the part count is the minimum ceil(n/per) (packed: greedy cuts). ParseLongSmsContent proved in bit-vector mode for all strings: the 6-octet and the 7-octet (16-bit reference) forms return exactly the header values and the rest, everything else is 'not concatenated'. Repaired: D12, D13.",
         ""),
 "C14": ("Packed GSM 7-bit path: every cut point k satisfies septet[k-1] != ESC (from Encode's proved output discipline: ESC is always followed by an extension code, never by ESC), for all messages. "
         "Generic splitter: the boundary clauses (no UTF-16 high surrogate / no unpacked ESC immediately before a cut) are stated and FAIL - known finding D14, replayed on every run.",
         "GB18030 two-octet boundaries are not stated (no scanner spec); D14 covers them informally. "),
 "C08": ("Pack and Unpack proved bit-exactly against TS 23.038 6.1.2.1.1 for all lengths (bit-vector + array obligations, loop invariants per 8-septet block, CR filler, the end-of-message carve-out exactly as stated in the property), "
         "and the lemma unpack_inverts_pack: any octet string satisfying Pack's postcondition for S yields S[j] at every septet position j under Unpack's specification; "
         "the four alphabet tables compared entry by entry with the independently transcribed TS 23.038 table (ground) and proved mutually inverse with no default code equal to ESC (gsm_tables_inverse); "
         "Encode proved to return exactly the table image of the text rune by rune (recursive spec gsmseq) and to succeed iff every rune is in one of the two tables; Decode proved to return exactly the text of its septets (gsmtext) and to succeed iff they are well-formed; "
         "Decode(Encode(s)) == s for valid UTF-8 proved by induction on the remaining length (lemma gsm_text_roundtrip). ValidateGSM7Buffer proved total, terminating and within the allocation budget.",
         "Not proved: the two stream transformers' functional agreement with the function pair (their loops are textual duplicates; only safety, termination and bounds are proved for them); the last composition step Unpack(Pack(X)) == X across the bit-vector and sequence levels is stated as a hypothesis of packed_codec_roundtrip; UTF-8: utf8from (the rune yielded at i re-encodes to the octets read) is the definition of valid UTF-8 used, not derived from unicode/utf8 (A-UTF8); int(math.Ceil(float64(n)*7/8)) == (7n+7)/8 for n < 2^22 is assumed (A-CEIL, validated exhaustively in the thorough tier). "),
 "C15": ("GenConnectAuth, GenConnectRespAuthISMG, genAuthenticatorClient, TimeStamp2Str, cmpp20.NewConnect and smgp30.NewLogin proved to compute the protocol's digest formula (md5 uninterpreted, 16 octets) over account, zero padding, secret and the ten-digit timestamp that the PDU carries; "
         "the decode clauses of the six 16-octet authenticator slots (C01) are part of this check, so the peer's recomputation equals what it receives. Known finding D3d (SMGP login response slot) carved out.",
         "crypto/md5, fmt %010d, time formatting and strconv.Atoi of the MMDDhhmmss string are assumed models (A-MD5, A-FMT10, A-ATOI). "),
 "C10": ("Loop-free proofs for every PDU type: GenEmptyResponse has the protocol's response type, the request's sequence id and command|0x80000000 (responses: nil); "
         "GetCommand equals the table command (bind flavours: the header id); SetSequenceID/GetSequenceID agree with the header member that C02 places at the header offset; "
         "each dispatcher returns exactly the table's type for every command id its package can encode, ErrUnsupportedPacket (never nil,nil) for all other 32-bit ids.",
         "The command-id table is part of the layout tables. Sentinel-error identity is modelled by a tag function (errors produced by library calls are never this module's sentinels). "),
 "C11": ("For arbitrary input: IDecode ok => every decoded member satisfies the encoder's precondition (strings NUL-free and within width, counts equal list lengths, "
         "body length equal to its length field, optional parameters well-formed), proved per type including the destination-list and TLV loops; with C01/C02 this gives "
         "re-encodability and stability (composition argued in DESIGN.md section 4). Known finding D2 carved out.",
         "The composition decode->encode->decode is a paper lemma over the machine-checked per-function contracts. "),
 "C16": ("TLV.Bytes/Option.Bytes: exact image in the exact, truncated and padded cases, no panic for any 16-bit length; TLVs.Bytes/Options.Serialize: result is the serialisation "
         "of the map in the (arbitrary) iteration order; ReadTLVs1/ReadOptions/ParseOptions: on the serialisation of any well-formed set in any order they return that set "
         "(loop invariants over a ghost permutation); on ANY well-formed triplet sequence, repeated tags included, each of the four parsers returns for every tag the value of its LAST occurrence (recursive spec tlast, ghost tag), so the two entry points of each container agree; on arbitrary input they terminate, stay within the allocation budget and return a well-formed map; Options.Len == len(Serialize()); accessors total.",
         "Options.Add on a nil container loses the option (known finding D18: value receiver; carved out exactly, proved for every non-nil container). "),
 "C17": ("Bit-vector proofs over all 2^64 ids: CombineMsgID places each in-range field at the CMPP bit positions, SplitMsgID returns those fields, split-then-combine is the identity, "
         "every split field is below its decimal print width. The decimal string form is proved against models of fmt.Sprintf / fmt.Sscanf for constant %0Nd formats: MsgID2String(u) is, for u != 0, exactly the 22 digits "
         "dec2(month) dec2(day) dec2(hour) dec2(minute) dec2(second) dec7(gateway) dec5(sequence) of u's fields (empty for 0); MsgIDString2Uint64(s) is 0 when the scan fails and the recombined scanned fields when it succeeds with in-range fields; "
         "lemma msgid_string_roundtrip: parse(print(u)) == u for every non-zero 64-bit u.",
         "The lemma's hypothesis is that Sscanf inverts Sprintf of the same format on in-range fields (assumption A-SCAN; Sprintf's %0Nd = N digits is A-FMT2): not proved, exercised by the BOUNDED stand-in TestValidator_MSGID on every check (all {0,1,max} field combinations, single-bit ids, 4*10^4 / 2*10^5 random ids; print == 22-digit form of the fields, parse(print(id)) == id, 0 <-> empty). "),
 "C18": ("smpp34.findSubValue, smgp30.findSubValue (both key spellings), findSMGPIDValue and both ExtractDeliveryReceipt proved per call against strings.Index's defining property: the value returned for a key is exactly the characters after the first occurrence of `key:` up to the next space or the end "
         "(SMGP: cut to the field width; id: hex of the ten octets after `id:`), empty if the key is absent, never a panic; the CMPP status-report body (SubPduDeliveryContent) is proved like the PDUs of C01/C02. Repaired: D7.",
         "Assumed, not proved (A-TOK): that for receipts built from the eight keys in any order and subset the first occurrence of each key token is its field (a combinatorial fact about the fixed token set under the property's value restrictions). strings.Index is an assumed model. "),
 "C19": ("ToValidatePeriod proved for all parsable durations below 4096 h: zero -> empty string; negative or unparsable -> error; relative form = 0000 DD hh mm ss 000R with the four fields equal to the integer quotients of the nanosecond count, 16 characters, "
         "and a lemma (pure integer arithmetic) that the fields add up to the duration in whole seconds; a relative period of 31 days or more is refused; absolute form = Format(now+d) ++ 000+, 16 characters, where the twelve digits are two each of year mod 100, month, day, hour, minute, second of the UTC wall clock (so a rewrite through Date()/Clock() and Sprintf is the same string). Repaired: D20.",
         "package time, fmt %02d and the float64 duration accessors are assumed models (A-TIMEPKG, A-FMT2, A-FLOAT: exact below 4096 h, nothing claimed above); the absolute form is pinned only as Format(now+d) ++ 000+ with d below 36500 days (an absolute period of 36500 days or more is refused: D27, repaired); that the two-digit year then denotes the intended instant rests on the reader interpreting it within the coming century. "),
 "C20": ("Contracts on every method of packet.Writer and packet.Reader (append-only view, written==len(view) invariant, sticky errors, readers never return more than remains, "
         "observer-form clauses used by the PDU level) proved against the SSA of the real bodies; the T1 bridge lemmas 'read primitive inverts write primitive' are re-proved from T0 on every run. "
         "Operation histories are covered by the data-structure invariant, not by enumeration.", ""),
}
NA = {
 "C13": "quantifies over goroutine interleavings; a sequential contract verifier has no notion of threads or happens-before, and assuming linearizable pools would assume the property (DESIGN.md section 4, C13)",
}
PENDING = "not claimed yet: contracts for this property are still being written (DESIGN.md section 7, build order); no check is registered until its obligations discharge on the unchanged tree"

props = [json.loads(l) for l in open('/verif/properties.jsonl')]
checks = []
for p in props:
    if p['id'] in CLAIMS:
        text, note = CLAIMS[p['id']]
        checks.append({
            "property_id": p['id'], "quick_cmd": "./check %s quick" % p['id'], "thorough_cmd": "./check %s thorough" % p['id'],
            "evidence_file": "/verif/evidence/%s.json" % p['id'], "engine": "govc", "replay_cmd_template": "./bin/govc replay {path}",
            "level_claimed": {"category": ("other" if p['id'] == "C09" else "proof"), "text": text, "design_ref": "DESIGN.md section 9 (as built) and section 4, " + p['id']},
            "level_note": BASE_NOTE + note, "technique": TECH})
na = []
for p in props:
    if p['id'] in CLAIMS:
        continue
    na.append({"property_id": p['id'], "reason": NA.get(p['id'], PENDING)})
commits = subprocess.check_output(['git', '-C', '/repo', 'log', '--format=%H %s', 'e31e46d..HEAD']).decode().strip().split('\n')
hook_commits = [c.split()[0] for c in commits if c.split(' ', 1)[1].startswith('verif:')]
m = {"version": 1,
     "setup_cmd": "cd engine && GOFLAGS=-mod=mod GOPROXY=off GOSUMDB=off GOTOOLCHAIN=local go build -o ../bin/govc .",
     "hooks": {"guard": "verif",
               "enable": "go/packages load of /repo with -tags=verif; the guarded files (<pkg>/verif_contracts.go) hold //@ contract comments only",
               "baseline_off_cmd": "cd /repo && GOFLAGS=-mod=mod go test -vet=off -count=1 ./...",
               "source_commits": hook_commits, "add_only": True},
     "engines": [{"name": "govc", "path": "/verif/engine", "serves_properties": sorted(CLAIMS),
                  "kind_free_text": "deductive verifier for the Go subset of this library: contracts in //@ comments, symbolic execution of go/ssa per function with callee contracts, loop invariants, byte-sequence theory T0/T1, z3 4.8.12 / z3 5.1.0 / cvc5 1.0 raced per obligation"}],
     "checks": checks,
     "notes": "See DESIGN.md. known_findings.json lists genuine defects recorded rather than repaired, and the repaired ones (fix: commits in /repo) with their witnesses, which are replayed on every run.",
     "not_applicable": na}
json.dump(m, open('/verif/MANIFEST.json', 'w'), indent=1)
print("claimed:", sorted(CLAIMS), "hook commits:", len(hook_commits))
