#!/usr/bin/env python3
"""Emit the skeleton of <pkg>/verif_contracts.go for the PDU packages from the layout tables:
one `layout enc` block per IEncode and one `layout dec` block per IDecode. Loop invariants and
anything else hand-written is kept in the marked section of an existing file."""
import json, sys, os, re, glob, subprocess
root = os.path.dirname(os.path.dirname(os.path.abspath(__file__)))
repo = sys.argv[1] if len(sys.argv) > 1 else '/repo'
MOD = 'github.com/hujm2023/go-sms-protocol'
for f in sorted(glob.glob(os.path.join(root, 'specs/layouts/*.json'))):
    d = json.load(open(f))
    pkgdir = os.path.join(repo, d['package'][len(MOD)+1:])
    pkgname = os.path.basename(pkgdir)
    out = os.path.join(pkgdir, 'verif_contracts.go')
    hand = ''
    if os.path.exists(out):
        s = open(out).read()
        m = re.search(r'// ---- hand-written below ----\n(.*)$', s, re.S)
        if m: hand = m.group(1)
    # receiver names from the sources
    src = ''
    for g in glob.glob(os.path.join(pkgdir, '*.go')):
        if g.endswith('_test.go') or os.path.basename(g).startswith('verif_'): continue
        src += open(g).read()
    lines = ['//go:build verif', '', '// Contracts checked by /verif (govc). Comments only; not part of any normal build.',
             '// The `layout` directive synthesises requires/ensures from /verif/specs/layouts (DESIGN.md section 3.4).', '', 'package ' + pkgname, '']
    for t in d['types']:
        T = t['type']
        for meth, dirv in (('IEncode', 'enc'), ('IDecode', 'dec'), ('GetCommand', 'cmd'), ('GenEmptyResponse', 'resp'), ('SetSequenceID', 'setseq'), ('GetSequenceID', 'getseq')):
            if t.get('command') is None and dirv not in ('enc', 'dec'):
                continue
            m = re.search(r'func \((\w+) \*' + T + r'\) ' + meth + r'\(', src)
            if not m:
                print('warning: no', T, meth, 'in', pkgdir, file=sys.stderr); continue
            lines += ['//@ func (%s *%s) %s' % (m.group(1), T, meth)] + (['//@   theory T1'] if dirv in ('enc','dec') else []) + ['//@   layout ' + dirv, '']
    dm = re.search(r'func (Decode\w+)\(data \[\]byte\) \(sms\.PDU, error\)', src)
    if dm:
        lines += ['//@ func ' + dm.group(1), '//@   layout dispatch', '']
    lines += ['// ---- hand-written below ----']
    open(out, 'w').write('\n'.join(lines) + '\n' + hand)
    print('wrote', out)
