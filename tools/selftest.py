#!/usr/bin/env python3
"""Self-test of the verifier (must-fail and must-stay-quiet corpus). Not part of the quick/thorough tiers.

  tools/selftest.py [-j N] [--only ID,ID...] [--suite]

For every entry of selftest/mutants.py and every sub-agent seeded change under seeded/*/patch.diff:
  scratch copy of /repo (outside /repo and /verif) -> apply -> go build ./... -> ./bin/govc check <prop> quick
  with VERIF_REPO pointing at the copy and evidence redirected to scratch -> compare with the expectation -> delete the copy.
kind=break  expects exit 1 and a VIOLATION line from EVERY listed property's check;
kind=benign expects exit 0 and no VIOLATION line from every listed check.
--suite additionally runs the repository's own tests on the mutated copy (must stay green for kind=break to be a fair mutant).
Result: selftest/last_run.json (committed)."""
import json, os, subprocess, sys, shutil, glob, time, argparse
from concurrent.futures import ThreadPoolExecutor

ROOT = '/verif'
REPO = os.environ.get('VERIF_REPO', '/repo')
TMP = os.environ.get('VERIF_TMP', '/var/tmp')
ENV = dict(os.environ, GOFLAGS='-mod=mod', GOPROXY='off', GOSUMDB='off', GOTOOLCHAIN='local')

def sh(cmd, cwd=None, env=None, timeout=3600):
    p = subprocess.run(cmd, shell=True, cwd=cwd, env=env or ENV, stdout=subprocess.PIPE, stderr=subprocess.STDOUT, timeout=timeout)
    return p.returncode, p.stdout.decode(errors='replace')

def load_corpus():
    sys.path.insert(0, os.path.join(ROOT, 'selftest'))
    import mutants
    items = []
    for m in mutants.MUTANTS:
        items.append(dict(m, source='selftest/mutants.py'))
    for d in sorted(glob.glob(os.path.join(ROOT, 'seeded', '*'))):
        pf = os.path.join(d, 'patch.diff')
        if not os.path.exists(pf):
            continue
        meta = json.load(open(os.path.join(d, 'meta.json')))
        props = meta.get('detect_with') or [meta['property']]
        # meta.kind == "benign": a behaviour-preserving refactor written by a sub-agent (false-alarm canary); default: a break
        kind = 'benign' if meta.get('kind') == 'benign' else 'break'
        if meta.get('kind') in ('benign-rejected', 'benign-limit', 'break-uncovered'):
            continue  # not behaviour-preserving after all / needs the contract re-annotated (kept for the record, see meta.json)
        items.append(dict(id=os.path.basename(d), kind=kind, props=props, patch=pf, why=meta.get('summary', '')[:200], source='seeded'))
    return items

def apply(item, work):
    if 'patch' in item:
        rc, out = sh('git apply --unsafe-paths --directory=%s %s' % (work, item['patch']), cwd='/')
        if rc != 0:
            rc, out = sh('patch -p1 -s < %s' % item['patch'], cwd=work)
        return rc == 0, out
    f = os.path.join(work, item['file'])
    s = open(f).read()
    n = s.count(item['old'])
    if item.get('all'):
        if n == 0:
            return False, 'old text not found'
        s = s.replace(item['old'], item['new'])
    elif 'nth' in item:
        parts = s.split(item['old'])
        if len(parts) - 1 <= item['nth']:
            return False, 'occurrence %d not found (%d)' % (item['nth'], n)
        k = item['nth']
        s = item['old'].join(parts[:k + 1]) + item['new'] + item['old'].join(parts[k + 1:])
    else:
        if n != 1:
            return False, 'old text occurs %d times' % n
        s = s.replace(item['old'], item['new'])
    open(f, 'w').write(s)
    return True, ''

def run_one(item, suite):
    t0 = time.time()
    work = os.path.join(TMP, 'selftest_%s_%d' % (item['id'], os.getpid()))
    ev = work + '_ev'
    res = dict(id=item['id'], kind=item['kind'], props=item['props'], why=item.get('why', ''), source=item['source'], checks={})
    try:
        shutil.rmtree(work, ignore_errors=True)
        sh('rsync -a --exclude .git %s/ %s/' % (REPO, work))
        ok, out = apply(item, work)
        if not ok:
            res['status'] = 'SKIP: does not apply (%s)' % out.strip()[:200]
            return res
        rc, out = sh('go build ./...', cwd=work)
        if rc != 0:
            res['status'] = 'SKIP: does not compile: ' + out.strip()[-300:]
            return res
        if suite:
            rc, out = sh('go test -vet=off -count=1 ./... 2>&1 | grep -v "^ok\\|no test files\\|sgip12\\|mockey\\|^FAIL$" | head -5', cwd=work)
            res['suite'] = 'green' if out.strip() == '' else 'NOT GREEN: ' + out.strip()[:300]
        good = True
        for p in item['props']:
            env = dict(ENV, VERIF_REPO=work, VERIF_EVIDENCE_DIR=ev)
            rc, out = sh('%s check %s quick' % (GOVC, p), cwd=ROOT, env=env)
            viol = [l for l in out.splitlines() if l.startswith('VIOLATION')]
            res['checks'][p] = dict(exit=rc, violations=len(viol), first=(viol[0][:260] if viol else ''), tail=out.strip().splitlines()[-1][:200] if out.strip() else '')
            if item['kind'] == 'break':
                good = good and rc == 1 and len(viol) > 0
            else:
                good = good and rc == 0 and len(viol) == 0
        res['status'] = 'PASS' if good else 'FAIL'
        return res
    finally:
        shutil.rmtree(work, ignore_errors=True)
        shutil.rmtree(ev, ignore_errors=True)
        res['seconds'] = round(time.time() - t0, 1)

def main():
    global GOVC
    # run a private copy of the engine binary, so that it can be rebuilt while a long self-test is under way
    GOVC = os.path.join(TMP, 'selftest_govc_%d' % os.getpid())
    shutil.copy2(os.path.join(ROOT, 'bin', 'govc'), GOVC)
    ENV['VERIF_ROOT'] = ROOT
    try:
        return main2()
    finally:
        os.remove(GOVC)

def main2():
    ap = argparse.ArgumentParser()
    ap.add_argument('-j', type=int, default=3)
    ap.add_argument('--only', default='')
    ap.add_argument('--suite', action='store_true')
    ap.add_argument('--resume', action='store_true', help='reuse results of an interrupted run made with the current engine binary')
    a = ap.parse_args()
    items = load_corpus()
    if a.only:
        want = set(a.only.split(','))
        items = [i for i in items if i['id'] in want]
    t0 = time.time()
    pdir = os.path.join(TMP, 'selftest_partial')
    os.makedirs(pdir, exist_ok=True)
    engine_mtime = os.path.getmtime(os.path.join(ROOT, 'bin', 'govc'))

    def run_print(it):
        pf = os.path.join(pdir, it['id'] + '.json')
        if a.resume and os.path.exists(pf) and os.path.getmtime(pf) > engine_mtime:
            r = json.load(open(pf))  # --resume: result of an interrupted run with this very engine build
            print('%-8s %-7s %-5s (resumed)' % (r['id'], r['kind'], r['status'][:40]), flush=True)
            return r
        r = run_one(it, a.suite)
        json.dump(r, open(pf, 'w'))
        print('%-8s %-7s %-5s %s  (%.0fs)' % (r['id'], r['kind'], r['status'][:40], ' '.join('%s:exit%d/%dv' % (p, c['exit'], c['violations']) for p, c in r['checks'].items()), r.get('seconds', 0)), flush=True)
        return r
    with ThreadPoolExecutor(max_workers=a.j) as ex:
        results = list(ex.map(run_print, items))
    bad = sum(1 for r in results if r['status'] != 'PASS')
    head = subprocess.run('git -C %s rev-parse --short HEAD' % REPO, shell=True, stdout=subprocess.PIPE).stdout.decode().strip()
    out = dict(repo_head=head, when=time.strftime('%Y-%m-%dT%H:%M:%S'), total=len(results), not_pass=bad, wall_s=round(time.time() - t0, 1), results=results)
    if not a.only:
        json.dump(out, open(os.path.join(ROOT, 'selftest', 'last_run.json'), 'w'), indent=1)
    print('selftest: %d entries, %d not PASS, %.0fs' % (len(results), bad, time.time() - t0))
    return 1 if bad else 0

if __name__ == '__main__':
    sys.exit(main())
