package protocol_test

// Bounded validators of ASSUMED models (thorough tier). Nothing here is a proof and none of it is counted as one:
// each test exercises an external function (or an assumed hypothesis of a lemma) against the statement the verifier
// assumes about it, over a stated finite bound, and logs `VALIDATOR <id> OK evaluations=<n> bound=<text>`.
// A failure means an assumption of the verifier is wrong (an engine fault, not a property violation).
//
// Injected into the root package directory with `go test -overlay`; never written into /repo.

import (
	"bytes"
	"context"
	"encoding/binary"
	"encoding/hex"
	"fmt"
	"io"
	"math"
	"math/rand"
	"os"
	"reflect"
	"runtime"
	"strconv"
	"strings"
	"testing"
	"time"
	"unicode/utf16"
	"unicode/utf8"
	"unsafe"

	"github.com/valyala/bytebufferpool"
	"golang.org/x/text/transform"

	protocol "github.com/hujm2023/go-sms-protocol"
	"github.com/hujm2023/go-sms-protocol/cmpp"
	"github.com/hujm2023/go-sms-protocol/datacoding"
	"github.com/hujm2023/go-sms-protocol/datacoding/gsm7encoding"
)

func ok(t *testing.T, id string, n int, bound string) {
	t.Logf("VALIDATOR %s OK evaluations=%d bound=%s", id, n, bound)
}

// A-CEIL: int(math.Ceil(float64(n)*7/8)) == (7n+7)/8 for 0 <= n < 2^22
func TestValidator_CEIL(t *testing.T) {
	n := 0
	for i := 0; i < 1<<22; i++ {
		if int(math.Ceil(float64(i)*7/8)) != (7*i+7)/8 {
			t.Fatalf("A-CEIL fails at %d", i)
		}
		n++
	}
	ok(t, "A-CEIL", n, "all n in [0,2^22)")
}

// A-BIN: big-endian accessors; a short binary.Read leaves the target unmodified and consumes what was there
func TestValidator_BIN(t *testing.T) {
	n := 0
	b := make([]byte, 8)
	for i := 0; i < 1<<16; i++ {
		binary.BigEndian.PutUint16(b, uint16(i))
		if int(b[0])*256+int(b[1]) != i || binary.BigEndian.Uint16(b) != uint16(i) {
			t.Fatalf("Uint16 %d", i)
		}
		n++
	}
	r := rand.New(rand.NewSource(1))
	for i := 0; i < 1000000; i++ {
		v := r.Uint64()
		binary.BigEndian.PutUint64(b, v)
		var w uint64
		for k := 0; k < 8; k++ {
			w = w<<8 | uint64(b[k])
		}
		if w != v || binary.BigEndian.Uint64(b) != v {
			t.Fatalf("Uint64 %x", v)
		}
		binary.BigEndian.PutUint32(b, uint32(v))
		if uint32(b[0])<<24|uint32(b[1])<<16|uint32(b[2])<<8|uint32(b[3]) != uint32(v) || binary.BigEndian.Uint32(b) != uint32(v) {
			t.Fatalf("Uint32 %x", v)
		}
		n += 2
	}
	// short reads
	for size := 1; size <= 8; size *= 2 {
		for have := 0; have < size; have++ {
			buf := bytes.NewBuffer(bytes.Repeat([]byte{0xAB}, have))
			var u8 uint8 = 7
			var u16 uint16 = 7
			var u32 uint32 = 7
			var u64 uint64 = 7
			var err error
			switch size {
			case 1:
				err = binary.Read(buf, binary.BigEndian, &u8)
			case 2:
				err = binary.Read(buf, binary.BigEndian, &u16)
			case 4:
				err = binary.Read(buf, binary.BigEndian, &u32)
			case 8:
				err = binary.Read(buf, binary.BigEndian, &u64)
			}
			if err == nil || u8 != 7 || u16 != 7 || u32 != 7 || u64 != 7 || buf.Len() != 0 {
				t.Fatalf("short binary.Read size=%d have=%d: err=%v left=%d", size, have, err, buf.Len())
			}
			n++
		}
	}
	ok(t, "A-BIN", n, "Uint16 exhaustive; 10^6 random 32/64-bit values; every short read of 1,2,4,8 octets")
}

// A-BUF: bytes.Buffer.Read / Len / Bytes / ReadString, bytes.IndexByte, strings.Index, strings.Join, hex
func TestValidator_BUF(t *testing.T) {
	r := rand.New(rand.NewSource(2))
	n := 0
	for it := 0; it < 100000; it++ {
		l := r.Intn(40)
		data := make([]byte, l)
		for i := range data {
			data[i] = byte(r.Intn(4)) // small alphabet: many NULs and repeats
		}
		buf := bytes.NewBuffer(append([]byte(nil), data...))
		want := r.Intn(45)
		p := make([]byte, want)
		got, err := buf.Read(p)
		switch {
		case want == 0:
			if got != 0 || err != nil {
				t.Fatalf("Read(0) = %d,%v", got, err)
			}
		case l == 0:
			if got != 0 || err == nil {
				t.Fatalf("Read on empty = %d,%v", got, err)
			}
		default:
			m := want
			if l < m {
				m = l
			}
			if got != m || err != nil || !bytes.Equal(p[:m], data[:m]) || buf.Len() != l-m || !bytes.Equal(buf.Bytes(), data[m:]) {
				t.Fatalf("Read(%d) of %d octets = %d,%v", want, l, got, err)
			}
		}
		// IndexByte = first occurrence
		ib := bytes.IndexByte(data, 0)
		first := -1
		for i, c := range data {
			if c == 0 {
				first = i
				break
			}
		}
		if ib != first {
			t.Fatalf("IndexByte")
		}
		// ReadString(0): up to and including the first NUL, or everything + error
		b2 := bytes.NewBuffer(append([]byte(nil), data...))
		s, err := b2.ReadString(0)
		if first >= 0 {
			if err != nil || s != string(data[:first+1]) || b2.Len() != l-first-1 {
				t.Fatalf("ReadString")
			}
		} else if err == nil || s != string(data) || b2.Len() != 0 {
			t.Fatalf("ReadString no delimiter")
		}
		// ReadByte: first unread octet, or (0, io.EOF) on an empty buffer; Next(k): view of min(k, len) octets; String: the unread part;
		// WriteByte / Write: appended
		b3 := bytes.NewBuffer(append([]byte(nil), data...))
		c, err := b3.ReadByte()
		if l == 0 {
			if c != 0 || err != io.EOF || b3.Len() != 0 {
				t.Fatalf("ReadByte on empty = %d,%v", c, err)
			}
		} else if c != data[0] || err != nil || !bytes.Equal(b3.Bytes(), data[1:]) {
			t.Fatalf("ReadByte = %d,%v", c, err)
		}
		b4 := bytes.NewBuffer(append([]byte(nil), data...))
		k := r.Intn(45)
		m := k
		if l < m {
			m = l
		}
		nx := b4.Next(k)
		if !bytes.Equal(nx, data[:m]) || b4.String() != string(data[m:]) {
			t.Fatalf("Next(%d) of %d octets", k, l)
		}
		_ = b4.WriteByte(7)
		_, _ = b4.Write([]byte{8, 9})
		if b4.String() != string(data[m:])+"\x07\x08\x09" {
			t.Fatalf("WriteByte/Write")
		}
		n += 5
	}
	// strings.Index: the least i with s[i:i+len(sub)] == sub, or -1
	al := "ab: "
	for it := 0; it < 200000; it++ {
		s := make([]byte, r.Intn(14))
		for i := range s {
			s[i] = al[r.Intn(len(al))]
		}
		sub := make([]byte, r.Intn(4))
		for i := range sub {
			sub[i] = al[r.Intn(len(al))]
		}
		got := strings.Index(string(s), string(sub))
		want := -1
		for i := 0; i+len(sub) <= len(s); i++ {
			if string(s[i:i+len(sub)]) == string(sub) {
				want = i
				break
			}
		}
		if got != want {
			t.Fatalf("strings.Index(%q,%q)=%d want %d", s, sub, got, want)
		}
		if strings.Join([]string{string(s), string(sub)}, "") != string(s)+string(sub) {
			t.Fatalf("Join")
		}
		n++
	}
	ok(t, "A-BUF", n, "10^5 random buffers (len<40, alphabet of 4) x Read/ReadByte/Next/String/WriteByte/Write/IndexByte/ReadString; 2*10^5 random strings.Index/Join instances")
}

// A-HEX
func TestValidator_HEX(t *testing.T) {
	r := rand.New(rand.NewSource(3))
	n := 0
	for it := 0; it < 200000; it++ {
		b := make([]byte, r.Intn(24))
		r.Read(b)
		h := hex.EncodeToString(b)
		d, err := hex.DecodeString(h)
		if err != nil || !bytes.Equal(d, b) || len(h) != 2*len(b) || strings.IndexByte(h, 0) >= 0 {
			t.Fatalf("hex %x", b)
		}
		n++
	}
	ok(t, "A-HEX", n, "2*10^5 random octet strings below 24 octets")
}

// A-FMT10, A-FMT2, A-ATOI
func TestValidator_FMT(t *testing.T) {
	n := 0
	dec := func(v uint64, w int) string {
		s := make([]byte, w)
		for i := w - 1; i >= 0; i-- {
			s[i] = byte('0' + v%10)
			v /= 10
		}
		return string(s)
	}
	for a := 0; a < 100; a++ {
		for b := 0; b < 100; b += 7 {
			if fmt.Sprintf("0000%02d%02d%02d%02d000R", a, b, a, b) != "0000"+dec(uint64(a), 2)+dec(uint64(b), 2)+dec(uint64(a), 2)+dec(uint64(b), 2)+"000R" {
				t.Fatalf("%%02d %d %d", a, b)
			}
			n++
		}
	}
	// %0Nd of 0 <= v < 10^N is exactly N decimal digits; %d has no padding; %s and literal text are copied
	for w := 1; w <= 12; w++ {
		lim := uint64(1)
		for i := 0; i < w; i++ {
			lim *= 10
		}
		rw := rand.New(rand.NewSource(int64(40 + w)))
		for it := 0; it < 3000; it++ {
			v := uint64(rw.Int63n(int64(lim)))
			if it == 0 {
				v = 0
			}
			if it == 1 {
				v = lim - 1
			}
			if got := fmt.Sprintf("a%0"+fmt.Sprint(w)+"d-%s%%", v, "xy"); got != "a"+dec(v, w)+"-xy%" {
				t.Fatalf("%%0%dd %d: %q", w, v, got)
			}
			n++
		}
	}
	r := rand.New(rand.NewSource(4))
	for it := 0; it < 300000; it++ {
		v := uint64(r.Int63n(10000000000))
		if it < 2000 {
			v = uint64(it) * 4999999 // includes 0 and small values
		}
		s := fmt.Sprintf("%010d", v)
		if s != dec(v, 10) {
			t.Fatalf("%%010d %d", v)
		}
		n++
	}
	// time.Format("0102150405") gives ten digits that Atoi parses below 2^32
	for it := 0; it < 100000; it++ {
		tm := time.Unix(r.Int63n(4102444800), 0) // 1970..2100
		s := tm.Format("0102150405")
		v, err := strconv.Atoi(s)
		if len(s) != 10 || err != nil || v < 0 || v >= 1<<32 {
			t.Fatalf("Format/Atoi %q", s)
		}
		n++
	}
	ok(t, "A-FMT10,A-FMT2,A-ATOI", n, "%02d on 0..99 (1500 tuples); %0Nd for N=1..12 (3000 values each, with %s and literal text); %010d on 3*10^5 values below 10^10; 10^5 random instants 1970..2100")
}

// A-FLOAT: the float64 duration accessors agree with integer division below 4096 h
func TestValidator_FLOAT(t *testing.T) {
	n := 0
	chk := func(d time.Duration) {
		ns := int64(d)
		if int64(int(d.Hours())) != ns/3600000000000 || int64(int(d.Hours()/24)) != ns/86400000000000 ||
			int64(int(d.Minutes())) != ns/60000000000 || int64(int(d.Seconds())) != ns/1000000000 {
			t.Fatalf("A-FLOAT fails at %d ns", ns)
		}
		n++
	}
	lim := int64(4096) * 3600
	for s := int64(0); s < lim; s++ { // every whole second, and one nanosecond either side
		chk(time.Duration(s * 1000000000))
		if s > 0 {
			chk(time.Duration(s*1000000000 - 1))
		}
		chk(time.Duration(s*1000000000 + 1))
	}
	r := rand.New(rand.NewSource(5))
	for it := 0; it < 2000000; it++ {
		chk(time.Duration(r.Int63n(lim * 1000000000)))
	}
	ok(t, "A-FLOAT", n, "every whole second below 4096 h with +-1 ns, and 2*10^6 random durations below 4096 h")
}

// A-TIMEPKG: Format("060102150405") yields 12 digits; ParseDuration is a function (same input, same output)
func TestValidator_TIMEPKG(t *testing.T) {
	r := rand.New(rand.NewSource(6))
	n := 0
	for it := 0; it < 200000; it++ {
		tm := time.Unix(r.Int63n(4102444800), 0).UTC()
		s := tm.Format("060102150405")
		if len(s) != 12 {
			t.Fatalf("Format %q", s)
		}
		for _, c := range s {
			if c < '0' || c > '9' {
				t.Fatalf("Format %q", s)
			}
		}
		// the twelve digits are year mod 100, month, day, hour, minute, second of Date()/Clock(), two digits each
		y, mo, d := tm.Date()
		h, mi, se := tm.Clock()
		if s != fmt.Sprintf("%02d%02d%02d%02d%02d%02d", y%100, int(mo), d, h, mi, se) || y != tm.Year() || mo != tm.Month() || d != tm.Day() || h != tm.Hour() || mi != tm.Minute() || se != tm.Second() {
			t.Fatalf("Format %q against Date/Clock", s)
		}
		n++
	}
	for _, s := range []string{"1h", "90m", "1500ms", "-3s", "x", "", "743h59m59.5s", "4095h"} {
		a, e1 := time.ParseDuration(s)
		b, e2 := time.ParseDuration(s)
		if a != b || (e1 == nil) != (e2 == nil) {
			t.Fatalf("ParseDuration %q", s)
		}
		n++
	}
	ok(t, "A-TIMEPKG", n, "2*10^5 random instants 1970..2100 (Format against Date/Clock/Year..Second)")
}

// A-POOL: a buffer obtained from the pool is empty; writes append
func TestValidator_POOL(t *testing.T) {
	n := 0
	r := rand.New(rand.NewSource(7))
	for it := 0; it < 50000; it++ {
		b := bytebufferpool.Get()
		if b.Len() != 0 {
			t.Fatalf("pooled buffer not empty")
		}
		var want []byte
		for k := r.Intn(5); k > 0; k-- {
			p := make([]byte, r.Intn(30))
			r.Read(p)
			m, err := b.Write(p)
			if m != len(p) || err != nil {
				t.Fatalf("Write")
			}
			want = append(want, p...)
			_ = b.WriteByte(9)
			want = append(want, 9)
			_, _ = b.WriteString("xy")
			want = append(want, 'x', 'y')
		}
		if !bytes.Equal(b.Bytes(), want) || b.Len() != len(want) {
			t.Fatalf("content")
		}
		bytebufferpool.Put(b)
		n++
	}
	ok(t, "A-POOL", n, "5*10^4 get/write/put rounds")
}

// A-XTEXT (hypotheses of the C05 lemmas): for valid UTF-8 text, the x/text-backed codecs either refuse or invert
func TestValidator_XTEXT(t *testing.T) {
	type codec struct {
		name string
		enc  func(string) ([]byte, error)
		dec  func([]byte) ([]byte, error)
	}
	cs := []codec{
		{"ucs2", func(s string) ([]byte, error) { return datacoding.UCS2(s).Encode() }, func(b []byte) ([]byte, error) { return datacoding.UCS2(b).Decode() }},
		{"latin1", func(s string) ([]byte, error) { return datacoding.Latin1(s).Encode() }, func(b []byte) ([]byte, error) { return datacoding.Latin1(b).Decode() }},
		{"gb18030", func(s string) ([]byte, error) { return datacoding.GB18030(s).Encode() }, func(b []byte) ([]byte, error) { return datacoding.GB18030(b).Decode() }},
		{"gsm7unpacked", func(s string) ([]byte, error) { return datacoding.GSM7Unpacked(s).Encode() }, func(b []byte) ([]byte, error) { return datacoding.GSM7Unpacked(b).Decode() }},
	}
	n := 0
	quick := os.Getenv("VERIF_VALIDATOR_QUICK") != ""
	try := func(c codec, s string) {
		e, err := c.enc(s)
		n++
		if err != nil {
			return
		}
		d, err := c.dec(e)
		if err != nil || string(d) != s {
			t.Logf("VALIDATOR-FAIL A-XTEXT codec=%s input=%+q encoded=%x decoded=%+q err=%v", c.name, s, e, d, err)
			t.Fatalf("A-XTEXT: %s does not invert on %+q: got %+q err=%v", c.name, s, d, err)
		}
		if c.name == "ucs2" {
			// the three CMPP helpers produce the same image
			if u1, err := cmpp.Utf8ToUcs2(s); err != nil || u1 != string(e) || cmpp.Utf8ToUcs2Back(s) != string(e) || cmpp.Utf8ToUcs2Pooled(s) != string(e) {
				t.Logf("VALIDATOR-FAIL A-XTEXT codec=cmpp.Utf8ToUcs2* input=%+q: Utf8ToUcs2=%x (err %v) Back=%x Pooled=%x, UCS2 codec=%x", s, u1, err, cmpp.Utf8ToUcs2Back(s), cmpp.Utf8ToUcs2Pooled(s), e)
				t.FailNow()
			}
			// and the image is the big-endian UTF-16 form
			u := utf16.Encode([]rune(s))
			if len(e) != 2*len(u) {
				t.Fatalf("ucs2 length on %+q", s)
			}
			for i, x := range u {
				if e[2*i] != byte(x>>8) || e[2*i+1] != byte(x) {
					t.Fatalf("ucs2 image on %+q", s)
				}
			}
		}
	}
	for r := rune(0); r <= 0x10FFFF; r++ {
		if r >= 0xD800 && r <= 0xDFFF {
			continue
		}
		if quick && r > 0xFFFF && r%61 != 0 && r != 0x10FFFF {
			continue // quick tier: the whole BMP, every 61st supplementary value
		}
		for _, c := range cs {
			if c.name == "gb18030" && r >= 0xE000 && r <= 0xE864 {
				continue // carve-out stated by the property: the upstream table is not bijective on these private-use points
			}
			try(c, string(r))
			if !quick && (r < 0x3000 || r%97 == 0) {
				try(c, "a"+string(r)+"b")
			}
			if r >= 0xFE00 && r <= 0xFFFF {
				try(c, string(r)+"ab") // byte-order-mark look-alikes in first position
				try(c, "ab"+string(r))
			}
		}
	}
	rnd := rand.New(rand.NewSource(8))
	// end-of-message shapes: lengths around the 8-septet / 7-octet block boundaries, ending in CR, '@', space or an escape
	for _, c := range cs {
		for l := 1; l <= 25; l++ {
			for _, last := range []string{"\r", "@", " ", "[", "a", "\n"} {
				for _, fill := range []string{"a", "1", "@", "\r"} {
					try(c, strings.Repeat(fill, l-1)+last)
				}
			}
		}
	}
	pools := [][]rune{[]rune("abcXYZ019 @£$¥èéùìòÇØøÅå_^{}\\[~]|€ÆæßÉ\r\n"), []rune("中文短信测试，。！"), {0x1F600, 0x1F4A9, 0x10000, 0x10FFFF, 0xFFFD, 0xFEFF, 0xFFFE}, []rune("äöüÿþÐ\u0080\u009f ")}
	rounds := 60000
	if quick {
		rounds = 8000
	}
	for it := 0; it < rounds; it++ {
		var sb strings.Builder
		p := pools[rnd.Intn(len(pools))]
		for k := rnd.Intn(12); k > 0; k-- {
			if rnd.Intn(6) == 0 {
				p = pools[rnd.Intn(len(pools))]
			}
			sb.WriteRune(p[rnd.Intn(len(p))])
		}
		s := sb.String()
		if !utf8.ValidString(s) {
			continue
		}
		for _, c := range cs {
			try(c, s)
		}
	}
	if quick {
		ok(t, "A-XTEXT", n, "quick: every BMP scalar value and every 61st supplementary value alone x 4 codecs (GB18030 private-use carve-out U+E000..U+E864 skipped), U+FE00..U+FFFF also first and last of a 3-character string; 8000 random mixed strings")
		return
	}
	ok(t, "A-XTEXT", n, "every Unicode scalar value alone (and in a 3-character context for the BMP below U+3000 and every 97th value) x 4 codecs, GB18030 private-use carve-out U+E000..U+E864 skipped; 6*10^4 random mixed strings")
}

// A-TOK (assumed by C18): in a receipt built from the eight keys in any order and any subset, with space-free values
// that contain no key token, the FIRST occurrence of `key:` is that key's own field.
func TestValidator_TOK(t *testing.T) {
	for _, keys := range [][]string{
		{"id", "sub", "dlvrd", "submit date", "done date", "stat", "err", "text"},
		{"id", "sub", "dlvrd", "Submit_Date", "Done_Date", "stat", "err", "Text"},
		{"id", "sub", "dlvrd", "Submit_Date", "done date", "stat", "err", "text"},
	} {
		vals := []string{"", "x", "sub", "id", "dlvrd", "stat", "err", "text", "Text", "date", "done", "submit", "Submit_Date", "Done_Date", "001", "DELIVRD", "i", "d", ":", "::", "a:b", "t", "ex", "tex", "sta", "er", "su", "dlvr"}
		bad := func(v string) bool {
			if strings.Contains(v, " ") {
				return true
			}
			for _, k := range keys {
				if strings.Contains(v, k+":") {
					return true
				}
			}
			return false
		}
		var good []string
		for _, v := range vals {
			if !bad(v) {
				good = append(good, v)
			}
		}
		n := 0
		rnd := rand.New(rand.NewSource(9))
		perm := make([]int, len(keys))
		for i := range perm {
			perm[i] = i
		}
		var rec func(k int)
		check := func() {
			for mask := 1; mask < 1<<len(keys); mask++ {
				var sb strings.Builder
				pos := map[string]int{}
				first := true
				for _, ki := range perm {
					if mask&(1<<ki) == 0 {
						continue
					}
					if !first {
						sb.WriteByte(' ')
					}
					first = false
					pos[keys[ki]] = sb.Len()
					sb.WriteString(keys[ki])
					sb.WriteByte(':')
					sb.WriteString(good[rnd.Intn(len(good))])
				}
				s := sb.String()
				for k, p := range pos {
					if strings.Index(s, k+":") != p {
						t.Fatalf("A-TOK fails: first %q in %q is at %d, its field is at %d", k+":", s, strings.Index(s, k+":"), p)
					}
				}
				n++
			}
		}
		rec = func(k int) {
			if k == len(perm) {
				if rnd.Intn(8) == 0 { // 1/8 of the 40320 orders, all 255 subsets each
					check()
				}
				return
			}
			for i := k; i < len(perm); i++ {
				perm[k], perm[i] = perm[i], perm[k]
				rec(k + 1)
				perm[k], perm[i] = perm[i], perm[k]
			}
		}
		rec(0)
		ok(t, "A-TOK", n, fmt.Sprintf("key spelling set %v: a random eighth of the 8! orders x all 255 non-empty subsets, values drawn from %d adversarial space-free strings", keys, len(good)))
	}
}

// ---------------------------------------------------------------------------------------------------------------------
// BOUNDED stand-in for BatchDataCodingEncoder.Build (C09). Build's body (map iteration, goroutines, lo.Filter, sort.Sort)
// is outside the verifier's subset; its building blocks (priorities, comparators, Less, per-candidate Run, Result) are
// proved. Here every request of a finite family is run against an independent oracle: the winner is the candidate that
// can represent the content with the fewest parts, ties broken by the documented priority; UCS-2 fallback when none can;
// an error only when nothing can or the request is empty; and the answer does not depend on candidate order,
// duplicates or GOMAXPROCS.

type bcand struct {
	coding int
	parts  int
	ok     bool
}

func gsmSeptets(s string) ([]byte, bool) {
	out := []byte{}
	// independent of the library's tables: use the library's own unpacked codec only to learn the septets of one rune
	for _, r := range s {
		e, err := datacoding.GSM7Unpacked(string(r)).Encode()
		if err != nil {
			return nil, false
		}
		out = append(out, e...)
	}
	return out, true
}

func packedParts(septets []byte) int {
	if len(septets) <= 160 {
		return 1
	}
	n, begin := 0, 0
	for begin < len(septets) {
		end := begin + 153
		if end >= len(septets) {
			end = len(septets)
		} else if septets[end-1] == 0x1B {
			end--
		}
		begin = end
		n++
	}
	return n
}

func oracleCand(proto string, coding int, content string) bcand {
	c := bcand{coding: coding}
	var enc []byte
	var err error
	max, per := 140, 134
	switch {
	case proto == "CMPP" && coding == 0, proto == "SMPP" && coding == 1:
		enc, err = datacoding.Ascii(content).Encode()
	case proto == "CMPP" && (coding == 8 || coding == 9), proto == "SMPP" && coding == 8:
		enc, err = datacoding.UCS2(content).Encode()
	case proto == "CMPP" && coding == 15:
		enc, err = datacoding.GB18030(content).Encode()
	case proto == "SMPP" && coding == 3:
		enc, err = datacoding.Latin1(content).Encode()
	case proto == "SMPP" && coding == 0:
		enc, err = datacoding.GSM7Unpacked(content).Encode()
		max, per = 160, 153
	case proto == "SMPP" && coding == 99:
		s, ok := gsmSeptets(content)
		if !ok {
			return c
		}
		c.parts = packedParts(s)
		c.ok = c.parts <= 255
		return c
	default:
		return c // not a coding of this protocol
	}
	if err != nil {
		return c
	}
	if len(enc) <= max {
		c.parts, c.ok = 1, true
		return c
	}
	c.parts = (len(enc) + per - 1) / per
	c.ok = c.parts <= 255
	return c
}

var bprio = map[string]map[int]int{
	"CMPP": {9: 1, 8: 2, 15: 3, 0: 4},
	"SMPP": {8: 1, 0: 2, 3: 3, 1: 4, 99: 5},
}

func TestValidator_BUILD(t *testing.T) {
	quick := os.Getenv("VERIF_VALIDATOR_QUICK") != ""
	ctx := context.Background()
	long := func(s string, n int) string { return strings.Repeat(s, n) }
	contents := []string{
		"hello", "price 10$ {ok}", long("a", 160), long("a", 161), long("a", 153*2), long("a", 306) + "[", long("[", 77), long("[", 80),
		"ñandú", "Ýes", "你好", long("你", 70), long("你", 71), long("你好吗", 50), "hi 😀", long("😀", 40), "mixé 你", "a\r", long("a", 159) + "\r",
		long("a", 134*255), long("a", 134*255+1), long("a", 153*255+1), "@", "@@@@@@@@", "1234567@", "€", long("€", 81),
	}
	if quick {
		contents = []string{"hello", long("a", 161), long("a", 306) + "[", long("[", 80), "ñandú", "Ýes", "你好", long("你", 71), "hi 😀", long("a", 134*255+1), "1234567@", long("€", 81)}
	}
	protos := map[string][]int{"CMPP": {0, 8, 9, 15}, "SMPP": {0, 1, 3, 8, 99}}
	mk := func(proto string, c int) datacoding.ProtocolDataCoding {
		if proto == "CMPP" {
			return datacoding.CMPPDataCoding(c)
		}
		return datacoding.SMPPDataCoding(c)
	}
	n := 0
	rnd := rand.New(rand.NewSource(10))
	for _, proto := range []string{"CMPP", "SMPP"} {
		all := protos[proto]
		for mask := 1; mask < 1<<len(all); mask++ {
			var set []int
			for i, c := range all {
				if mask&(1<<i) != 0 {
					set = append(set, c)
				}
			}
			origins := []int{-1, all[rnd.Intn(len(all))], 7}
			if !quick {
				origins = append([]int{-1, 7}, all...)
			}
			for _, origin := range origins {
				for _, content := range contents {
					// oracle
					cands := map[int]bool{}
					for _, c := range set {
						cands[c] = true
					}
					if origin >= 0 && origin != 7 {
						cands[origin] = true
					}
					best := bcand{}
					found := false
					for c := range cands {
						oc := oracleCand(proto, c, content)
						if !oc.ok {
							continue
						}
						if !found || oc.parts < best.parts || (oc.parts == best.parts && bprio[proto][c] < bprio[proto][best.coding]) {
							best, found = oc, true
						}
					}
					wantErr := false
					if !found {
						fb := oracleCand(proto, 8, content)
						if fb.ok {
							best, found = fb, true
						} else {
							wantErr = true
						}
					}
					// the request, in three presentations
					variants := [][]int{set}
					sh := append([]int(nil), set...)
					rnd.Shuffle(len(sh), func(i, j int) { sh[i], sh[j] = sh[j], sh[i] })
					variants = append(variants, sh, append(append([]int(nil), sh...), set...))
					var first string
					for vi, v := range variants {
						var dcs []datacoding.ProtocolDataCoding
						for _, c := range v {
							dcs = append(dcs, mk(proto, c))
						}
						b := protocol.NewBatchDataCodingEncoder().Protocol(protocol.Protocol(proto)).Content(content, 7).DataCodings(dcs)
						if origin >= 0 {
							b = b.OriginDataCoding(mk(proto, origin))
						}
						if vi == 2 {
							old := runtime.GOMAXPROCS(1 + rnd.Intn(16))
							defer runtime.GOMAXPROCS(old)
						}
						parts, coding, err := b.Build(ctx)
						n++
						desc := fmt.Sprintf("protocol=%s candidates=%v origin=%d content=%+q", proto, v, origin, content)
						if len(content) > 60 {
							desc = fmt.Sprintf("protocol=%s candidates=%v origin=%d content=%+q...(%d octets)", proto, v, origin, content[:24], len(content))
						}
						if wantErr {
							if err == nil {
								t.Logf("VALIDATOR-FAIL C09-BUILD %s: no candidate and not UCS-2 can represent it, but Build returned coding %v with %d parts", desc, coding, len(parts))
								t.FailNow()
							}
							continue
						}
						if err != nil {
							t.Logf("VALIDATOR-FAIL C09-BUILD %s: expected coding %d with %d parts, Build returned error %v", desc, best.coding, best.parts, err)
							t.FailNow()
						}
						if coding == nil || coding.ToInt() != mk(proto, best.coding).ToInt() || int(reflect.ValueOf(coding).Int()) != best.coding || len(parts) != best.parts {
							t.Logf("VALIDATOR-FAIL C09-BUILD %s: expected coding %d with %d parts, Build returned coding %v with %d parts", desc, best.coding, best.parts, coding, len(parts))
							t.FailNow()
						}
						sig := fmt.Sprintf("%v|%x", coding, parts)
						if vi == 0 {
							first = sig
						} else if sig != first {
							t.Logf("VALIDATOR-FAIL C09-BUILD %s: the answer depends on the presentation of the candidate set", desc)
							t.FailNow()
						}
						// the parts are those of the single-coding path (proved under C06/C07) for the winning coding
						if vi == 0 {
							var ref [][]byte
							var rerr error
							if proto == "CMPP" {
								var rc datacoding.CMPPDataCoding
								ref, rc, rerr = protocol.EncodeCMPPContentAndSplit(ctx, content, datacoding.CMPPDataCoding(best.coding), 7)
								if rerr == nil && int(rc) != best.coding {
									rerr = fmt.Errorf("reference path reported %d", rc)
								}
							} else {
								var rc datacoding.SMPPDataCoding
								ref, rc, rerr = protocol.EncodeSMPPContentAndSplit(ctx, content, datacoding.SMPPDataCoding(best.coding), 7)
								if rerr == nil && int(rc) != best.coding {
									rerr = fmt.Errorf("reference path reported %d", rc)
								}
							}
							if rerr != nil || !reflect.DeepEqual(ref, parts) {
								t.Logf("VALIDATOR-FAIL C09-BUILD %s: parts differ from the single-coding path for coding %d (%v)", desc, best.coding, rerr)
								t.FailNow()
							}
						}
					}
				}
			}
		}
	}
	// empty requests
	if _, _, err := protocol.NewBatchDataCodingEncoder().Protocol(protocol.SMPP).Content("", 1).DataCodings([]datacoding.ProtocolDataCoding{datacoding.SMPP_CODING_UCS2}).Build(ctx); err == nil {
		t.Logf("VALIDATOR-FAIL C09-BUILD empty content accepted")
		t.FailNow()
	}
	if _, _, err := protocol.NewBatchDataCodingEncoder().Protocol(protocol.SMPP).Content("x", 1).Build(ctx); err == nil {
		t.Logf("VALIDATOR-FAIL C09-BUILD empty candidate list accepted")
		t.FailNow()
	}
	n += 2
	ok(t, "C09-BUILD", n, fmt.Sprintf("every non-empty subset of the CMPP codings {0,8,9,15} and of the SMPP codings {0,1,3,8,99} x origins x %d contents x 3 presentations (given order, shuffled, shuffled+duplicated under a random GOMAXPROCS 1..16)", len(contents)))
}

// ---------------------------------------------------------------------------------------------------------------------
// BOUNDED stand-in for the functional agreement of the two stream transformers with the function pairs (C08: "all entry
// points agree with one another"). The transformers repeat the loops of Encode/Pack and Unpack/Decode textually; the
// verifier proves the function pairs exactly and, for the transformers, only safety, bounds and termination.
func TestValidator_AGREE(t *testing.T) {
	quick := os.Getenv("VERIF_VALIDATOR_QUICK") != ""
	n := 0
	alphabet := []rune("@£$¥èéùìòÇ\nØø\rÅåΔ_ΦΓΛΩΠΨΣΘΞÆæßÉ !\"#¤%&'()*+,-./0123456789:;<=>?¡ABCXYZÄÖÑÜ§¿abcxyzäöñüà^{}\\[~]|€\f")
	check := func(s string) {
		n++
		septets, err := gsm7encoding.Encode(s)
		encP := gsm7encoding.GSM7(true).NewEncoder()
		encU := gsm7encoding.GSM7(false).NewEncoder()
		tp, _, errP := transform.Bytes(encP, []byte(s))
		tu, _, errU := transform.Bytes(encU, []byte(s))
		if (err == nil) != (errP == nil) || (err == nil) != (errU == nil) {
			t.Logf("VALIDATOR-FAIL C08-AGREE input=%+q: Encode err=%v, packed transformer err=%v, unpacked transformer err=%v", s, err, errP, errU)
			t.FailNow()
		}
		if err != nil {
			return
		}
		if !bytes.Equal(tu, septets) {
			t.Logf("VALIDATOR-FAIL C08-AGREE input=%+q: unpacked transformer %x, Encode %x", s, tu, septets)
			t.FailNow()
		}
		packed := gsm7encoding.Pack(septets)
		if len(s) > 0 && !bytes.Equal(tp, packed) {
			t.Logf("VALIDATOR-FAIL C08-AGREE input=%+q: packed transformer %x, Pack(Encode) %x", s, tp, packed)
			t.FailNow()
		}
		// decoding side: transformer decoders agree with Decode / Decode(Unpack)
		d1, e1 := gsm7encoding.Decode(septets)
		d2, _, e2 := transform.Bytes(gsm7encoding.GSM7(false).NewDecoder(), septets)
		if (e1 == nil) != (e2 == nil) || (e1 == nil && len(septets) > 0 && !bytes.Equal(d1, d2)) {
			t.Logf("VALIDATOR-FAIL C08-AGREE septets=%x: Decode %q/%v, unpacked transformer %q/%v", septets, d1, e1, d2, e2)
			t.FailNow()
		}
		if len(packed) > 0 {
			d3, e3 := gsm7encoding.Decode(gsm7encoding.Unpack(packed))
			d4, _, e4 := transform.Bytes(gsm7encoding.GSM7(true).NewDecoder(), packed)
			if (e3 == nil) != (e4 == nil) || (e3 == nil && !bytes.Equal(d3, d4)) {
				t.Logf("VALIDATOR-FAIL C08-AGREE packed=%x: Decode(Unpack) %q/%v, packed transformer %q/%v", packed, d3, e3, d4, e4)
				t.FailNow()
			}
		}
	}
	// every string of length <= 2 over the alphabet (+ one character outside it), then structured and random longer ones
	ext := append(append([]rune(nil), alphabet...), '你')
	check("")
	for _, a := range ext {
		check(string(a))
		for _, b := range ext {
			check(string(a) + string(b))
		}
	}
	branch := []rune("@\r1a[€ ")
	maxLen := 9
	if quick {
		maxLen = 8
	}
	var rec func(prefix []rune, k int)
	rec = func(prefix []rune, k int) {
		if k == 0 {
			check(string(prefix))
			return
		}
		for _, r := range branch {
			rec(append(prefix, r), k-1)
		}
	}
	for l := 3; l <= maxLen && l <= 6; l++ {
		rec(nil, l)
	}
	rnd := rand.New(rand.NewSource(11))
	rounds := 60000
	if quick {
		rounds = 15000
	}
	for it := 0; it < rounds; it++ {
		l := rnd.Intn(40)
		if it%50 == 0 {
			l = 150 + rnd.Intn(20)
		}
		rs := make([]rune, l)
		for i := range rs {
			if rnd.Intn(4) == 0 {
				rs[i] = branch[rnd.Intn(len(branch))]
			} else {
				rs[i] = alphabet[rnd.Intn(len(alphabet))]
			}
		}
		check(string(rs))
	}
	ok(t, "C08-AGREE", n, "all strings of length <= 2 over the GSM alphabet plus one foreign character; all strings of length 3..6 over the 7 branch-driving characters {@,CR,1,a,[,euro,space}; random strings up to 40 (some 150..170) characters")
}

// ---------------------------------------------------------------------------------------------------------------------
// BOUNDED stand-in for the decimal string form of the CMPP message id (C17): MsgID2String / MsgIDString2Uint64 go
// through fmt.Sprintf / fmt.Sscanf with a multi-field format, which the verifier does not model (their contracts are
// assumed). The bit-level functions CombineMsgID / SplitMsgID are proved for all 2^64 ids.
func TestValidator_MSGID(t *testing.T) {
	n := 0
	dec := func(v uint64, w int) string {
		s := strconv.FormatUint(v, 10)
		for len(s) < w {
			s = "0" + s
		}
		return s
	}
	check := func(id uint64) {
		n++
		s := cmpp.MsgID2String(id)
		if id == 0 {
			if s != "" {
				t.Logf("VALIDATOR-FAIL C17-MSGID id=0 printed as %q", s)
				t.FailNow()
			}
			return
		}
		mo, d, h, mi, se, g, q := id>>60&0xf, id>>55&0x1f, id>>50&0x1f, id>>44&0x3f, id>>38&0x3f, id>>16&0x3fffff, id&0xffff
		want := dec(mo, 2) + dec(d, 2) + dec(h, 2) + dec(mi, 2) + dec(se, 2) + dec(g, 7) + dec(q, 5)
		if s != want {
			t.Logf("VALIDATOR-FAIL C17-MSGID id=%#x printed as %q, the 22-digit form of its fields is %q", id, s, want)
			t.FailNow()
		}
		if back := cmpp.MsgIDString2Uint64(s); back != id {
			t.Logf("VALIDATOR-FAIL C17-MSGID id=%#x printed as %q, which parses back to %#x", id, s, back)
			t.FailNow()
		}
	}
	ext := [][]uint64{{0, 1, 15}, {0, 1, 31}, {0, 1, 31}, {0, 1, 63}, {0, 1, 63}, {0, 1, 0x3fffff}, {0, 1, 0xffff}}
	var rec func(k int, acc uint64)
	shifts := []uint{60, 55, 50, 44, 38, 16, 0}
	rec = func(k int, acc uint64) {
		if k == len(ext) {
			check(acc)
			return
		}
		for _, v := range ext[k] {
			rec(k+1, acc|v<<shifts[k])
		}
	}
	rec(0, 0)
	for b := 0; b < 64; b++ {
		check(1 << uint(b))
		check(^uint64(0) >> uint(b))
	}
	rnd := rand.New(rand.NewSource(12))
	rounds := 200000
	if os.Getenv("VERIF_VALIDATOR_QUICK") != "" {
		rounds = 40000
	}
	for i := 0; i < rounds; i++ {
		id := rnd.Uint64()
		if i%4 == 0 {
			id >>= uint(rnd.Intn(64)) // small ids: high fields zero
		}
		check(id)
	}
	ok(t, "C17-MSGID", n, "all 3^7 combinations of {0, 1, max} per field, every single-bit id and every low-ones id, random 64-bit ids (a quarter of them shifted right by a random amount)")
}

// BOUNDED stand-in for an aspect of C12 the verifier's model does not cover: the elements of the [][]byte a splitter
// returns. Octet slices carry no capacity in the model, so "no part's memory (up to its capacity) overlaps another
// part's" is not a clause there; here it is checked on the real functions, over a corpus: every pair of parts of every
// result must have disjoint backing ranges [data, data+cap), and appending to a part must leave the others unchanged.
func TestValidator_SPLITOWN(t *testing.T) {
	ctx := context.Background()
	n := 0
	type run struct {
		name  string
		parts [][]byte
	}
	var texts []string
	for _, l := range []int{141, 160, 161, 300, 459, 1000} {
		texts = append(texts, strings.Repeat("a", l), strings.Repeat("a[", l/2), strings.Repeat("\u4f60\u597d", l/2), strings.Repeat("\u00e9", l))
	}
	for _, content := range texts {
		var runs []run
		for _, c := range []int{0, 8, 9, 15} {
			if parts, _, err := protocol.EncodeCMPPContentAndSplit(ctx, content, datacoding.CMPPDataCoding(c), 7); err == nil {
				runs = append(runs, run{fmt.Sprintf("CMPP coding %d, %d characters", c, utf8.RuneCountInString(content)), parts})
			}
		}
		for _, c := range []int{0, 1, 3, 8, 99} {
			if parts, _, err := protocol.EncodeSMPPContentAndSplit(ctx, content, datacoding.SMPPDataCoding(c), 7); err == nil {
				runs = append(runs, run{fmt.Sprintf("SMPP coding %d, %d characters", c, utf8.RuneCountInString(content)), parts})
			}
		}
		for _, r := range runs {
			for i := range r.parts {
				for j := i + 1; j < len(r.parts); j++ {
					a, b := r.parts[i], r.parts[j]
					if cap(a) == 0 || cap(b) == 0 {
						continue
					}
					pa, pb := uintptr(unsafe.Pointer(&a[:1][0])), uintptr(unsafe.Pointer(&b[:1][0])) // first element of the backing range (cap > 0)
					if pa < pb+uintptr(cap(b)) && pb < pa+uintptr(cap(a)) {
						t.Logf("VALIDATOR-FAIL C12-SPLITOWN %s: parts %d and %d of %d share backing memory (capacities %d and %d overlap): appending to one overwrites the other", r.name, i, j, len(r.parts), cap(a), cap(b))
						t.Fail()
						return
					}
					n++
				}
			}
			// the observable consequence: extend every part to its capacity and scribble; the others keep their octets
			snap := make([][]byte, len(r.parts))
			for i, p := range r.parts {
				snap[i] = append([]byte(nil), p...)
			}
			for i, p := range r.parts {
				full := p[:cap(p)]
				for k := len(p); k < len(full); k++ {
					full[k] = 0xEE
				}
				for j, q := range r.parts {
					if j != i && !bytes.Equal(q, snap[j]) {
						t.Logf("VALIDATOR-FAIL C12-SPLITOWN %s: part %d changed after the spare capacity of part %d was written", r.name, j, i)
						t.Fail()
						return
					}
				}
				n++
			}
		}
	}
	ok(t, "C12-SPLITOWN", n, "24 texts (ASCII, GSM escapes, CJK, Latin-1; 141..1000 characters) x 4 CMPP + 5 SMPP codings: pairwise disjoint backing ranges of the parts, spare capacity written")
}
