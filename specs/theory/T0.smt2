;; T0 — core theory of byte sequences used by the contracts (DESIGN.md §3.6, Appendix A).
;; Status: draft validated by spikes in round 0 —
;;   * no solver derives `false` from it (z3 4.8.12, z3 5.1.0, cvc5 1.0: unknown);
;;   * T1_from_T0.smt2 (prefix lemmas the PDU level is given) proves from it in < 0.25 s per solver;
;;   * ../lean/T0.lean proves 18 of the axioms over List (Fin 256) with Mathlib.
;; Not yet here (added with the functions that need them): md5, dec10, hexenc/hexdec, ext lemmas,
;; rep/tlvser (unfolded by the generator at fuel 1, never as self-triggering axioms), pack/specOctet,
;; ofArr, and the rule  n >= len a  ==>  take(cat a b, n) = cat(a, take(b, n - len a))  (true in the
;; model, proved in Lean, cvc5 derives it from the axioms below; it is only ever instantiated by the
;; generator because as an E-matching rule it cascades down every cat chain).
;; The sort is called Bytes because z3 reserves the name Seq.
(declare-sort Bytes 0)
(declare-fun len (Bytes) Int)
(declare-fun cat (Bytes Bytes) Bytes)
(declare-const eps Bytes)
(declare-fun take (Bytes Int) Bytes)
(declare-fun drop (Bytes Int) Bytes)
(declare-fun ext (Bytes Int Int) Bytes)
(declare-fun at (Bytes Int) Int)
(declare-fun u8 (Int) Bytes)
(declare-fun be16 (Int) Bytes) (declare-fun be32 (Int) Bytes) (declare-fun be64 (Int) Bytes)
(declare-fun dbe16 (Bytes) Int) (declare-fun dbe32 (Bytes) Int) (declare-fun dbe64 (Bytes) Int)
(declare-fun zeros (Int) Bytes)
(declare-fun idx0 (Bytes) Int)
(define-fun nonul ((s Bytes)) Bool (= (idx0 s) (- 1)))
(define-fun fixed ((s Bytes) (n Int)) Bytes (cat s (zeros (- n (len s)))))
(define-fun cstr ((s Bytes)) Bytes (cat s (u8 0)))
(define-fun trim ((t Bytes)) Bytes (ite (>= (idx0 t) 0) (take t (idx0 t)) t))
; 1
(assert (forall ((s Bytes)) (! (>= (len s) 0) :pattern ((len s)))))
(assert (= (len eps) 0))
(assert (forall ((s Bytes)) (! (=> (= (len s) 0) (= s eps)) :pattern ((len s)))))
(assert (forall ((a Bytes) (b Bytes)) (! (= (len (cat a b)) (+ (len a) (len b))) :pattern ((cat a b)))))
; 2
(assert (forall ((a Bytes)) (! (= (cat eps a) a) :pattern ((cat eps a)))))
(assert (forall ((a Bytes)) (! (= (cat a eps) a) :pattern ((cat a eps)))))
(assert (forall ((a Bytes) (b Bytes) (c Bytes)) (! (= (cat (cat a b) c) (cat a (cat b c))) :pattern ((cat (cat a b) c)))))
; 3
(assert (forall ((x Int)) (! (= (len (u8 x)) 1) :pattern ((u8 x)))))
(assert (forall ((x Int)) (! (= (len (be16 x)) 2) :pattern ((be16 x)))))
(assert (forall ((x Int)) (! (= (len (be32 x)) 4) :pattern ((be32 x)))))
(assert (forall ((x Int)) (! (= (len (be64 x)) 8) :pattern ((be64 x)))))
(assert (forall ((n Int)) (! (=> (>= n 0) (= (len (zeros n)) n)) :pattern ((zeros n)))))
(assert (forall ((n Int)) (! (=> (<= n 0) (= (zeros n) eps)) :pattern ((zeros n)))))
; 4
(assert (forall ((a Bytes) (n Int)) (! (=> (and (<= 0 n) (<= n (len a))) (and (= (len (take a n)) n))) :pattern ((take a n)))))
(assert (forall ((a Bytes) (n Int)) (! (=> (and (<= 0 n) (<= n (len a))) (= (len (drop a n)) (- (len a) n))) :pattern ((drop a n)))))
(assert (forall ((a Bytes) (n Int)) (! (=> (<= n 0) (= (take a n) eps)) :pattern ((take a n)))))
(assert (forall ((a Bytes) (n Int)) (! (=> (<= n 0) (= (drop a n) a)) :pattern ((drop a n)))))
(assert (forall ((a Bytes) (n Int)) (! (=> (>= n (len a)) (= (take a n) a)) :pattern ((take a n)))))
(assert (forall ((a Bytes) (n Int)) (! (=> (>= n (len a)) (= (drop a n) eps)) :pattern ((drop a n)))))
(assert (forall ((a Bytes) (n Int)) (! (= (cat (take a n) (drop a n)) a) :pattern ((take a n) (drop a n)))))
; 5
(assert (forall ((a Bytes) (b Bytes) (n Int)) (! (=> (= n (len a)) (= (take (cat a b) n) a)) :pattern ((take (cat a b) n)))))
(assert (forall ((a Bytes) (b Bytes) (n Int)) (! (=> (= n (len a)) (= (drop (cat a b) n) b)) :pattern ((drop (cat a b) n)))))
(assert (forall ((a Bytes) (b Bytes) (n Int)) (! (=> (< n (len a)) (= (take (cat a b) n) (take a n))) :pattern ((take (cat a b) n)))))
(assert (forall ((a Bytes) (b Bytes) (n Int)) (! (=> (and (<= 0 n) (< n (len a))) (= (drop (cat a b) n) (cat (drop a n) b))) :pattern ((drop (cat a b) n)))))
; 6
(assert (forall ((s Bytes) (lo Int) (hi Int)) (! (= (ext s lo hi) (take (drop s lo) (- hi lo))) :pattern ((ext s lo hi)))))
; 7
(assert (forall ((s Bytes) (i Int)) (! (=> (and (<= 0 i) (< i (len s))) (and (<= 0 (at s i)) (< (at s i) 256))) :pattern ((at s i)))))
(assert (forall ((a Bytes) (b Bytes) (i Int)) (! (=> (<= 0 i) (= (at (cat a b) i) (ite (< i (len a)) (at a i) (at b (- i (len a)))))) :pattern ((at (cat a b) i)))))
(assert (forall ((x Int)) (! (=> (and (<= 0 x) (< x 256)) (= (at (u8 x) 0) x)) :pattern ((u8 x)))))
(assert (forall ((n Int) (i Int)) (! (=> (and (<= 0 i) (< i n)) (= (at (zeros n) i) 0)) :pattern ((at (zeros n) i)))))
(assert (forall ((s Bytes) (n Int) (i Int)) (! (=> (and (<= 0 i) (< i n) (<= n (len s))) (= (at (take s n) i) (at s i))) :pattern ((at (take s n) i)))))
(assert (forall ((s Bytes) (n Int) (i Int)) (! (=> (and (<= 0 n) (<= 0 i) (< (+ n i) (len s))) (= (at (drop s n) i) (at s (+ n i)))) :pattern ((at (drop s n) i)))))
; 8
(assert (forall ((s Bytes)) (! (and (<= (- 1) (idx0 s)) (< (idx0 s) (len s))) :pattern ((idx0 s)))))
(assert (= (idx0 eps) (- 1)))
(assert (forall ((n Int)) (! (= (idx0 (zeros n)) (ite (> n 0) 0 (- 1))) :pattern ((zeros n)))))
(assert (forall ((a Bytes) (b Bytes)) (! (= (idx0 (cat a b)) (ite (>= (idx0 a) 0) (idx0 a) (ite (>= (idx0 b) 0) (+ (len a) (idx0 b)) (- 1)))) :pattern ((idx0 (cat a b))))))
(assert (forall ((x Int)) (! (=> (and (<= 0 x) (< x 256)) (= (idx0 (u8 x)) (ite (= x 0) 0 (- 1)))) :pattern ((u8 x)))))
(assert (forall ((s Bytes)) (! (=> (>= (idx0 s) 0) (and (= (at s (idx0 s)) 0) (= (idx0 (take s (idx0 s))) (- 1)))) :pattern ((idx0 s)))))
(assert (forall ((s Bytes) (i Int)) (! (=> (and (<= 0 i) (< i (len s)) (= (at s i) 0)) (and (>= (idx0 s) 0) (<= (idx0 s) i))) :pattern ((at s i)))))
; 9
(assert (forall ((x Int) (r Bytes)) (! (=> (and (<= 0 x) (< x 65536)) (= (dbe16 (cat (be16 x) r)) x)) :pattern ((dbe16 (cat (be16 x) r))))))
(assert (forall ((x Int) (r Bytes)) (! (=> (and (<= 0 x) (< x 4294967296)) (= (dbe32 (cat (be32 x) r)) x)) :pattern ((dbe32 (cat (be32 x) r))))))
(assert (forall ((x Int) (r Bytes)) (! (=> (and (<= 0 x) (< x 18446744073709551616)) (= (dbe64 (cat (be64 x) r)) x)) :pattern ((dbe64 (cat (be64 x) r))))))
(assert (forall ((x Int)) (! (=> (and (<= 0 x) (< x 65536)) (= (dbe16 (be16 x)) x)) :pattern ((be16 x)))))
(assert (forall ((x Int)) (! (=> (and (<= 0 x) (< x 4294967296)) (= (dbe32 (be32 x)) x)) :pattern ((be32 x)))))
(assert (forall ((x Int)) (! (=> (and (<= 0 x) (< x 18446744073709551616)) (= (dbe64 (be64 x)) x)) :pattern ((be64 x)))))
(assert (forall ((s Bytes)) (! (and (<= 0 (dbe16 s)) (< (dbe16 s) 65536)) :pattern ((dbe16 s)))))
(assert (forall ((s Bytes)) (! (and (<= 0 (dbe32 s)) (< (dbe32 s) 4294967296)) :pattern ((dbe32 s)))))
(assert (forall ((s Bytes)) (! (and (<= 0 (dbe64 s)) (< (dbe64 s) 18446744073709551616)) :pattern ((dbe64 s)))))
; dbeN depends only on the first N octets
(assert (forall ((s Bytes)) (! (=> (>= (len s) 2) (= (dbe16 (take s 2)) (dbe16 s))) :pattern ((dbe16 (take s 2))))))
(assert (forall ((s Bytes)) (! (=> (>= (len s) 4) (= (dbe32 (take s 4)) (dbe32 s))) :pattern ((dbe32 (take s 4))))))
(assert (forall ((s Bytes)) (! (=> (>= (len s) 8) (= (dbe64 (take s 8)) (dbe64 s))) :pattern ((dbe64 (take s 8))))))

; 10 (added with the engine) hex, md5, decimal
(declare-fun hexenc (Bytes) Bytes) (declare-fun hexdec (Bytes) Bytes) (declare-fun md5 (Bytes) Bytes) (declare-fun dec10 (Int) Bytes)
(assert (forall ((s Bytes)) (! (= (len (hexenc s)) (* 2 (len s))) :pattern ((hexenc s)))))
(assert (forall ((s Bytes)) (! (= (idx0 (hexenc s)) (- 1)) :pattern ((hexenc s)))))
(assert (forall ((s Bytes)) (! (= (hexdec (hexenc s)) s) :pattern ((hexenc s)))))
(assert (forall ((s Bytes)) (! (= (len (md5 s)) 16) :pattern ((md5 s)))))
(assert (forall ((x Int)) (! (=> (and (<= 0 x) (< x 10000000000)) (and (= (len (dec10 x)) 10) (= (idx0 (dec10 x)) (- 1)))) :pattern ((dec10 x)))))
; at over zeros / idx0 of a NUL-free prefix followed by zeros
(assert (forall ((s Bytes) (n Int)) (! (=> (and (<= 0 n) (<= n (len s))) (=> (= (idx0 s) (- 1)) (= (idx0 (take s n)) (- 1)))) :pattern ((idx0 (take s n))))))
; drop composes (List.drop_drop); pattern on the nested form only
(assert (forall ((s Bytes) (a Int) (b Int)) (! (=> (and (<= 0 a) (<= 0 b)) (= (drop (drop s a) b) (drop s (+ a b)))) :pattern ((drop (drop s a) b)))))
; take / drop inside a block of zeros (List.replicate lemmas)
(assert (forall ((n Int) (k Int)) (! (=> (and (<= 0 k) (<= k n)) (= (take (zeros n) k) (zeros k))) :pattern ((take (zeros n) k)))))
(assert (forall ((n Int) (k Int)) (! (=> (and (<= 0 k) (<= k n)) (= (drop (zeros n) k) (zeros (- n k)))) :pattern ((drop (zeros n) k)))))
; a single zero octet has one normal form
(assert (= (zeros 1) (u8 0)))
