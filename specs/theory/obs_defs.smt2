;; Observer definitions (revealed only when proving the packet primitives and the T1 lemmas).
(define-fun ok8 ((s Bytes)) Bool (>= (len s) 1)) (define-fun hd8 ((s Bytes)) Int (at s 0)) (define-fun tl8 ((s Bytes)) Bytes (drop s 1))
(define-fun ok16 ((s Bytes)) Bool (>= (len s) 2)) (define-fun hd16 ((s Bytes)) Int (dbe16 (take s 2))) (define-fun tl16 ((s Bytes)) Bytes (drop s 2))
(define-fun ok32 ((s Bytes)) Bool (>= (len s) 4)) (define-fun hd32 ((s Bytes)) Int (dbe32 (take s 4))) (define-fun tl32 ((s Bytes)) Bytes (drop s 4))
(define-fun ok64 ((s Bytes)) Bool (>= (len s) 8)) (define-fun hd64 ((s Bytes)) Int (dbe64 (take s 8))) (define-fun tl64 ((s Bytes)) Bytes (drop s 8))
(define-fun okN ((s Bytes) (n Int)) Bool (>= (len s) n)) (define-fun hdC ((s Bytes) (n Int)) Bytes (trim (take s n))) (define-fun hdB ((s Bytes) (n Int)) Bytes (take s n)) (define-fun tlN ((s Bytes) (n Int)) Bytes (drop s n))
(define-fun okZ ((s Bytes)) Bool (>= (idx0 s) 0)) (define-fun hdZ ((s Bytes)) Bytes (take s (idx0 s))) (define-fun tlZ ((s Bytes)) Bytes (drop s (+ (idx0 s) 1)))
