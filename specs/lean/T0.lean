import Mathlib.Data.List.Basic
import Mathlib.Tactic

abbrev Byte := Fin 256
abbrev Bytes := List Byte

namespace T0

def len (s : Bytes) : Int := s.length
def cat (a b : Bytes) : Bytes := a ++ b
def eps : Bytes := []
def take (s : Bytes) (n : Int) : Bytes := s.take n.toNat
def drop (s : Bytes) (n : Int) : Bytes := s.drop n.toNat
def zeros (n : Int) : Bytes := List.replicate n.toNat 0
/-- index of first NUL, or -1 -/
def idx0 (s : Bytes) : Int :=
  if s.findIdx (· = 0) < s.length then (s.findIdx (· = 0) : Int) else -1

theorem len_nonneg (s : Bytes) : 0 ≤ len s := by simp [len]
theorem len_eps : len eps = 0 := rfl
theorem len_zero_eps (s : Bytes) (h : len s = 0) : s = eps := by
  simp [len] at h; simpa [eps] using h
theorem len_cat (a b : Bytes) : len (cat a b) = len a + len b := by simp [len, cat]
theorem cat_eps_left (a : Bytes) : cat eps a = a := rfl
theorem cat_eps_right (a : Bytes) : cat a eps = a := by simp [cat, eps]
theorem cat_assoc (a b c : Bytes) : cat (cat a b) c = cat a (cat b c) := by simp [cat]
theorem len_zeros (n : Int) (h : 0 ≤ n) : len (zeros n) = n := by
  simp [len, zeros, Int.toNat_of_nonneg h]
theorem take_cat_exact (a b : Bytes) (n : Int) (h : n = len a) : take (cat a b) n = a := by
  subst h; simp [take, cat, len]
theorem drop_cat_exact (a b : Bytes) (n : Int) (h : n = len a) : drop (cat a b) n = b := by
  subst h; simp [drop, cat, len]
theorem take_cat_lt (a b : Bytes) (n : Int) (h : n < len a) : take (cat a b) n = take a n := by
  simp only [take, cat, len] at *
  apply List.take_append_of_le_length
  omega
theorem take_drop (a : Bytes) (n : Int) : cat (take a n) (drop a n) = a := by
  simp [cat, take, drop]
theorem beyond_take (a b : Bytes) (n : Int) (h : len a ≤ n) :
    take (cat a b) n = cat a (take b (n - len a)) := by
  simp only [take, cat, len] at *
  have : n.toNat = a.length + (n - (a.length : Int)).toNat := by omega
  rw [this, List.take_append]; simp
theorem idx0_bounds (s : Bytes) : -1 ≤ idx0 s ∧ idx0 s < len s := by
  unfold idx0 len
  split <;> constructor <;> omega
theorem idx0_eps : idx0 eps = -1 := by simp [idx0, eps]

end T0

namespace T0

/-! Second batch: `at` (named byteAt here, `at` is a Lean keyword), `idx0` over `cat`, `zeros`. -/

def byteAt (s : Bytes) (i : Int) : Int := if h : 0 ≤ i ∧ i.toNat < s.length then (s.get ⟨i.toNat, h.2⟩ : Nat) else 0

theorem at_range (s : Bytes) (i : Int) : 0 ≤ byteAt s i ∧ byteAt s i < 256 := by
  unfold byteAt
  split
  · constructor
    · exact Int.natCast_nonneg _
    · exact_mod_cast (s.get _).isLt
  · constructor <;> norm_num

theorem idx0_zeros (n : Int) : idx0 (zeros n) = if 0 < n then 0 else -1 := by
  unfold idx0 zeros
  rcases Nat.eq_zero_or_pos n.toNat with h | h
  · have : ¬ 0 < n := by omega
    simp [h, this]
  · have hn : 0 < n := by omega
    have : List.findIdx (fun x => decide (x = (0 : Byte))) (List.replicate n.toNat 0) = 0 := by
      cases hk : n.toNat with
      | zero => omega
      | succ k => simp [List.replicate_succ, List.findIdx_cons]
    simp [this, h, hn]

theorem idx0_cat (a b : Bytes) :
    idx0 (cat a b) = if 0 ≤ idx0 a then idx0 a else (if 0 ≤ idx0 b then len a + idx0 b else -1) := by
  unfold idx0 cat len
  by_cases ha : List.findIdx (fun x => decide (x = (0 : Byte))) a < a.length
  · have h1 : List.findIdx (fun x => decide (x = (0 : Byte))) (a ++ b) = List.findIdx (fun x => decide (x = (0 : Byte))) a := by
      rw [List.findIdx_append]; simp [ha]
    simp [h1, ha, List.length_append]
    omega
  · have h1 : List.findIdx (fun x => decide (x = (0 : Byte))) (a ++ b) = a.length + List.findIdx (fun x => decide (x = (0 : Byte))) b := by
      rw [List.findIdx_append]; simp [ha]; omega
    simp only [h1, ha, List.length_append, if_false]
    by_cases hb : List.findIdx (fun x => decide (x = (0 : Byte))) b < b.length
    · simp [hb]
    · simp [hb]

/-- adjacent zero blocks merge (used by the generator as a rewrite: `cat (zeros a) (zeros b)` is built as `zeros (a+b)`) -/
theorem zeros_cat (a b : Int) (ha : 0 ≤ a) (hb : 0 ≤ b) : cat (zeros a) (zeros b) = zeros (a + b) := by
  simp only [cat, zeros]
  rw [Int.toNat_add ha hb, List.replicate_add]

end T0
